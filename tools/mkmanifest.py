#!/usr/bin/env python3
"""Regenerate /verif/MANIFEST.json from dsim/props.py (claimed checks) and the fixed
not-applicable list.  Validates against the schema when jsonschema is importable."""
import json
import os
import sys

HERE = os.path.dirname(os.path.dirname(os.path.abspath(__file__)))
sys.path.insert(0, HERE)
from dsim import props  # noqa

NA = {
    "C05": "histogram counts/reverse indices are a pure function of (data, bin spec, engine flag): no history, clock, I/O, schedule or fault for a simulator to vary",
    "C06": "match/unique/rem_dup are pure functions of their array arguments: nothing for a simulator to schedule or fault",
    "C07": "structured-array field operations are pure functions returning new arrays",
    "C08": "angular separations are pure arithmetic on the inputs",
    "C09": "coordinate conversions are pure arithmetic on the inputs and constant tables",
    "C11": "cosmology distances are pure functions of (parameters, redshifts); copy/pickle variants are configurations, not histories",
    "C13": "HTM ids, circle cover and pair counts are pure functions of positions, depth and bins",
    "C14": "per-bin statistics are a pure function of (data, weights, options); the quantifier has no reuse of a Binner",
    "C16": "byte-order conversion is a pure function (the in-place variants are single calls with no later observer)",
    "C18": "weighted moments, clipping, interpolation and cov/cor are pure functions of their inputs",
}
ALL = ["C%02d" % i for i in range(1, 21)]

ENGINES = {
    "quadsim": "seeded call histories on one long-lived QGauss/QGauss2 object with aborted and rejected calls; independent Gauss-Legendre reference; fresh-object bit-equality model",
    "progsim": "progress wrappers under a simulated clock/consumer/failing source; pmap on real forked ProcessPoolExecutor workers whose completion order is decided by a virtual-time pool model and enforced through per-item semaphore gates",
    "recsim": "record files (sfile/recfile/io) on a scratch disk under seeded operation histories: create/write/close/append/rejected append/overwrite/stale files/interleaved handles/reads; in-memory table model + independent parser of the durable bytes",
    "rngsim": "random sky positions and samplers driven by a simulator-owned random source that records every deviate and forces legal edge deviates",
    "wcssim": "call histories (incl. aborted calls) on one WCS object vs. fresh-object-per-call model and a clean-room FITS-WCS reference",
    "htmsim": "reusable Matcher objects and pair files under call histories with rejected calls and stale output files; brute-force pair oracle",
}


def main():
    checks = []
    engines = {}
    for pid in ALL:
        spec = props.SPECS.get(pid)
        if spec is None:
            continue
        m = spec["manifest"]
        for part in spec["parts"]:
            engines.setdefault(part["engine"], []).append(pid)
        checks.append({
            "property_id": pid,
            "quick_cmd": "./vf check %s --tier quick" % pid,
            "thorough_cmd": "./vf check %s --tier thorough" % pid,
            "evidence_file": "evidence/%s.json" % pid,
            "replay_cmd_template": "./vf replay {path}",
            "engine": "+".join(sorted(set(p["engine"] for p in spec["parts"]))),
            "level_claimed": {"category": "exploration", "text": m["level_text"], "design_ref": m["design_ref"]},
            "level_note": m["level_note"],
            "technique": m["technique"],
        })
    na = []
    for pid in ALL:
        if pid in props.SPECS:
            continue
        if pid in NA:
            na.append({"property_id": pid, "reason": "not applicable to deterministic simulation: " + NA[pid]})
        else:
            na.append({"property_id": pid, "reason": "not claimed yet: check under construction (see DESIGN.md); no verdict is given"})
    man = {
        "version": 1,
        "setup_cmd": "./vf setup",
        "hooks": {
            "guard": "ESUTIL_VERIF",
            "enable": "no hooks were needed: every seam is reachable from outside (rng=/dist=/file= keyword arguments, the esutil.pbar.time module attribute, the task function given to pmap, file paths). Checks snapshot /repo's working tree, run setup.py build_ext --inplace in the snapshot and put it first on PYTHONPATH.",
            "baseline_off_cmd": "cd /repo && /venv/bin/python setup.py -q build_ext --inplace && /venv/bin/python -m pytest -ra -q -p no:cacheprovider --timeout=900 --continue-on-collection-errors esutil",
            "source_commits": [],
            "add_only": True,
        },
        "engines": [{"name": n, "path": "dsim/engines/%s.py" % n, "serves_properties": sorted(set(p)),
                     "kind_free_text": ENGINES.get(n, "")} for n, p in sorted(engines.items())],
        "checks": checks,
        "notes": "Deterministic simulation with fault injection (DESIGN.md). `./vf selftest determinism|reach|codec` test the machinery itself. known_findings.json lists repaired (fixed:) and open genuine defects.",
        "not_applicable": na,
    }
    path = os.path.join(HERE, "MANIFEST.json")
    with open(path, "w") as fh:
        json.dump(man, fh, indent=1)
        fh.write("\n")
    try:
        import jsonschema
        jsonschema.validate(man, json.load(open("/root/.vp/MANIFEST.schema.json")))
        print("MANIFEST.json written and valid: %d checks, %d not claimed" % (len(checks), len(na)))
    except ImportError:
        print("MANIFEST.json written (jsonschema not importable here; not validated)")


if __name__ == "__main__":
    main()
