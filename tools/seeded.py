#!/usr/bin/env python3
"""
Run the quick checks against the independent seeded changes kept under /verif/seeded/<id>/
(patch.diff + demo + meta.json).  Each patch is applied to a scratch copy of /repo's HEAD
(never to /repo itself), the check named in meta.json["property"] is run with VERIF_REPO=<copy>
and must report a VIOLATION; the copy is removed afterwards.

    tools/seeded.py [--only id,id] [--tier quick|thorough]

Writes tools/seeded_results.json.
"""
import json
import os
import shutil
import subprocess
import sys
import tempfile

HERE = os.path.dirname(os.path.dirname(os.path.abspath(__file__)))
REPO = "/repo"


def run(cmd, cwd=None, env=None, timeout=3600):
    p = subprocess.run(cmd, cwd=cwd, env=env, stdout=subprocess.PIPE, stderr=subprocess.STDOUT, timeout=timeout)
    return p.returncode, p.stdout.decode("utf-8", "replace")


def main():
    only = None
    merge = False
    tier = "quick"
    args = sys.argv[1:]
    while args:
        a = args.pop(0)
        if a == "--only":
            only = set(args.pop(0).split(","))
        elif a == "--tier":
            tier = args.pop(0)
        elif a == "--merge":
            merge = True
    sdir = os.path.join(HERE, "seeded")
    results = []
    for sid in sorted(os.listdir(sdir)):
        d = os.path.join(sdir, sid)
        if not os.path.isfile(os.path.join(d, "patch.diff")) or (only and sid not in only):
            continue
        meta = json.load(open(os.path.join(d, "meta.json")))
        tmp = tempfile.mkdtemp(prefix="esutil-seeded-", dir="/tmp")
        try:
            run(["bash", "-c", "git -C %s archive HEAD | tar -x -C %s" % (REPO, tmp)])
            rc, out = run(["patch", "-p1", "-s", "-i", os.path.join(d, "patch.diff")], cwd=tmp)
            if rc != 0:
                results.append({"id": sid, "status": "PATCH-DOES-NOT-APPLY", "out": out[-400:]})
                print(json.dumps(results[-1]))
                continue
            res = {"id": sid, "property": meta["property"], "checks": {}}
            for prop in meta.get("run_checks", [meta["property"]]):
                env = dict(os.environ)
                use_tier = meta.get("tier", tier)         # a change only the thorough tier can reach says so in meta.json
                if "scale" in meta and use_tier != tier:
                    env["VERIF_SCALE"] = str(meta["scale"])
                env.update({"VERIF_REPO": tmp, "VERIF_EVIDENCE_DIR": os.path.join(tmp, "_evidence"),
                            "VERIF_REPLAY_DIR": os.path.join(tmp, "_replays")})
                rc, out = run([os.path.join(HERE, "vf"), "check", prop, "--tier", use_tier], cwd=HERE, env=env)
                viol = [l for l in out.splitlines() if l.startswith("VIOLATION ")]
                oracles = [l.strip().split(" ")[0] for l in out.splitlines() if l.strip().startswith("oracle=")]
                res["checks"][prop] = {"exit": rc, "detected": bool(rc == 1 and viol), "oracles": oracles[:3], "tier": use_tier}
            res["status"] = "DETECTED" if any(c["detected"] for c in res["checks"].values()) else "MISSED"
            results.append(res)
            print(json.dumps(res))
            sys.stdout.flush()
        finally:
            shutil.rmtree(tmp, ignore_errors=True)
    rp = os.path.join(HERE, "tools", "seeded_results.json")
    if merge and os.path.exists(rp):
        old = {r["id"]: r for r in json.load(open(rp))}
        for r in results:
            old[r["id"]] = r
        results = [old[k] for k in sorted(old)]
    with open(rp, "w") as fh:
        json.dump(results, fh, indent=1)
    print("%d of %d seeded changes detected" % (sum(1 for r in results if r.get("status") == "DETECTED"), len(results)))


if __name__ == "__main__":
    main()
