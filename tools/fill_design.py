#!/usr/bin/env python3
"""Puts the tables printed by tools/mkreport.py between the MUTANTS / SEEDED markers of DESIGN.md."""
import os, re, subprocess, sys
H = os.path.dirname(os.path.dirname(os.path.abspath(__file__)))
out = subprocess.check_output([sys.executable, os.path.join(H, "tools", "mkreport.py")]).decode()
i = out.index("| change |")
mut, sed = out[:i].strip(), out[i:].strip()
p = os.path.join(H, "DESIGN.md")
s = open(p).read()
s = re.sub(r"<!-- MUTANTS:BEGIN -->.*?<!-- MUTANTS:END -->", lambda m: "<!-- MUTANTS:BEGIN -->\n" + mut + "\n<!-- MUTANTS:END -->", s, flags=re.S)
s = re.sub(r"<!-- SEEDED:BEGIN -->.*?<!-- SEEDED:END -->", lambda m: "<!-- SEEDED:BEGIN -->\n" + sed + "\n<!-- SEEDED:END -->", s, flags=re.S)
open(p, "w").write(s)
print("DESIGN.md tables refreshed")
