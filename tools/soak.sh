#!/bin/bash
# soak: run the quick tier of every claimed check under many seeds; print one line per run and every
# VIOLATION / HARNESS-ERROR / KNOWN-FINDING line.  Evidence and replays go to a scratch directory so that the committed
# evidence is only ever written by the registered commands.
# usage: tools/soak.sh <first seed> <last seed> [scale] [props...]
here="$(cd "$(dirname "$0")/.." && pwd)"; cd "$here"
a=${1:-1}; b=${2:-10}; scale=${3:-1}; shift 3 2>/dev/null
props="${@:-C01 C02 C03 C04 C10 C12 C15 C17 C19 C20}"
out=$(mktemp -d /var/tmp/esutil-soak-XXXX)
for s in $(seq $a $b); do
  for p in $props; do
    VERIF_SEED=$s VERIF_SCALE=$scale VERIF_EVIDENCE_DIR=$out/ev VERIF_REPLAY_DIR=$out/replays ./vf check $p --tier quick > $out/log 2>&1
    rc=$?
    echo "seed=$s $p exit=$rc $(grep -c VIOLATION $out/log) violations; $(grep '^property=' $out/log | cut -c1-160)"
    grep -E "VIOLATION|HARNESS-ERROR|KNOWN-FINDING|oracle=" $out/log
    if [ $rc -ne 0 ]; then mkdir -p $here/soak_failures; cp $out/replays/* $here/soak_failures/ 2>/dev/null; fi
  done
done
rm -rf $out
