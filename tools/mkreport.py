#!/usr/bin/env python3
"""Prints the markdown tables of DESIGN.md section 9 from tools/mutants_results.json, tools/seeded_results.json,
tools/seeded_firstpass.json and seeded/<id>/meta.json."""
import json, os
H = os.path.dirname(os.path.dirname(os.path.abspath(__file__)))
mut = json.load(open(os.path.join(H, "tools", "mutants_results.json")))
print("| mutant | property | what | existing suite | quick check | oracles |\n|---|---|---|---|---|---|")
for m in mut:
    print("| `%s` | %s | %s | %s | %s | %s |" % (m["id"], m["prop"], m["note"], m.get("suite", "?"), m["status"],
                                             ", ".join(o.replace("oracle=", "") for o in m.get("oracles", []))))
print("\n%d of %d mutants detected; %d of them also fail the existing suite\n" % (
    sum(1 for m in mut if m["status"] == "DETECTED"), len(mut), sum(1 for m in mut if m.get("suite") == "FAILS")))
sr = {r["id"]: r for r in json.load(open(os.path.join(H, "tools", "seeded_results.json")))}
fp = json.load(open(os.path.join(H, "tools", "seeded_firstpass.json")))["first_pass"]
print("| change | property | needs, in order to manifest | first run | now | oracles (now) |\n|---|---|---|---|---|---|")
for sid in sorted(os.listdir(os.path.join(H, "seeded"))):
    mp = os.path.join(H, "seeded", sid, "meta.json")
    if not os.path.exists(mp):
        continue
    m = json.load(open(mp))
    r = sr.get(sid, {})
    orc = sorted(set(o.replace("oracle=", "") for c in r.get("checks", {}).values() for o in c.get("oracles", [])))
    print("| %s | %s | %s | %s | %s | %s |" % (sid, m["property"], m.get("needs", ""), fp.get(sid, "detected").split(":")[0],
                                             r.get("status", "not run"), ", ".join(orc)))
n = len(sr)
print("\n%d of %d seeded changes detected now" % (sum(1 for r in sr.values() if r.get("status") == "DETECTED"), n))
