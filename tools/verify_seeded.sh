#!/bin/bash
# verify one seeded change by hand: suite passes with it, demo fails with it, demo passes without it.
# usage: tools/verify_seeded.sh <id>     (works on scratch copies under /tmp, removed afterwards)
set -u
id="$1"; here="$(cd "$(dirname "$0")/.." && pwd)"; d="$here/seeded/$id"
base=$(mktemp -d /tmp/esutil-vs-base-XXXX); mut=$(mktemp -d /tmp/esutil-vs-mut-XXXX)
git -C /repo archive HEAD | tar -x -C "$base"; git -C /repo archive HEAD | tar -x -C "$mut"
( cd "$mut" && patch -p1 -s -i "$d/patch.diff" ) || { echo "PATCH FAILED"; exit 2; }
( cd "$base" && /venv/bin/python setup.py -q build_ext --inplace -j16 >/dev/null 2>&1 )
( cd "$mut" && /venv/bin/python setup.py -q build_ext --inplace -j16 >/dev/null 2>&1 ) || echo "BUILD FAILED"
( cd "$mut" && PYTHONPATH="$mut" /venv/bin/python -m pytest -q -p no:cacheprovider -n 8 esutil 2>&1 | tail -1 )
( cd "$mut" && PYTHONPATH="$mut" timeout 600 /venv/bin/python "$d/demo.py" >/dev/null 2>&1; echo "demo with change: exit $?" )
( cd "$base" && PYTHONPATH="$base" timeout 600 /venv/bin/python "$d/demo.py" >/dev/null 2>&1; echo "demo without change: exit $?" )
rm -rf "$base" "$mut"
