#!/usr/bin/env python3
"""
Sensitivity self-test: a catalogue of small, realistic mutants of esheldon/esutil.  Each is
applied to a scratch copy of /repo's HEAD (never to /repo), the pinned test suite is run on
the mutant (it must still pass, otherwise the mutant is marked 'killed by the suite' and does
not count), then the quick check of the target property is run with VERIF_REPO=<copy> and
must report a VIOLATION.  The copy is deleted afterwards.

    tools/mutants.py [--only id,id] [--no-suite] [--jobs N]

Results: tools/mutants_results.json (and a table printed for DESIGN.md).
"""
import json
import os
import shutil
import subprocess
import sys
import tempfile

HERE = os.path.dirname(os.path.dirname(os.path.abspath(__file__)))
REPO = os.environ.get("VERIF_REPO", "/repo")

M = []


def mut(mid, prop, path, old, new, note, count=1):
    M.append({"id": mid, "prop": prop, "path": path, "old": old, "new": new, "note": note, "count": count})


# ---------------------------------------------------------------- C01
mut("c01-end-substring", "C01", "esutil/recfile/records.cpp",
    'if (0==strncmp(endbuff,"\\nEND\\n",5)) {', 'if (0==strncmp(endbuff+2,"END",3)) {',
    "header terminator matched as the substring END anywhere (the original defect)")
mut("c01-count-nrows-offset", "C01", "esutil/recfile/Util.py",
    "datasize = fobj.tell() - self.offset", "datasize = fobj.tell()",
    "row count derived from the whole file size although a data offset was given")
mut("c01-header-str", "C01", "esutil/sfile.py",
    "head = copy.deepcopy(header)", "head = dict((str(k).strip(), v) for k, v in header.items())",
    "user header keys normalised with strip(): keys with surrounding blanks change")
# ---------------------------------------------------------------- C02
mut("c02-no-seek-slice", "C02", "esutil/recfile/records.cpp",
    "\tnpy_intp nrows2read = process_slice(row1, row2, step);\n\n    // always begin at the user's requested file offset\n    goto_offset();",
    "\tnpy_intp nrows2read = process_slice(row1, row2, step);\n\n    if (ftell(mFptr) < mFileOffset) goto_offset();",
    "binary slice reader only seeks to the data start when the cursor is before it: a second read on the same handle continues from the cursor")
mut("c02-no-unique", "C02", "esutil/recfile/Util.py",
    "        rows2read = numpy.unique(rows2read)\n", "        rows2read = numpy.sort(rows2read)\n",
    "row list sorted but repeats kept")
mut("c02-text-skip-offbyone", "C02", "esutil/recfile/records.cpp",
    "\t\t\trows2skip = row2read - current_row;// + 1;", "\t\t\trows2skip = row2read - current_row + (current_row > 0 ? 1 : 0);",
    "space-delimited text: one row too many skipped between non-consecutive rows")
mut("c02-colnums-unsorted", "C02", "esutil/recfile/Util.py",
    "        return numpy.unique(colnums)\n", "        return colnums\n",
    "column numbers no longer sorted to file order")
# ---------------------------------------------------------------- C03
mut("c03-no-seek-end", "C03", "esutil/recfile/records.cpp",
    "    // always write from the end\n    fseek(mFptr, 0, SEEK_END);\n", "    // always write from the end\n    if (mMode[0] == 'w') fseek(mFptr, 0, SEEK_END);\n",
    "Write only seeks to the end for files opened with w: appending through r+ overwrites from the cursor")
mut("c03-size-not-accumulated", "C03", "esutil/sfile.py",
    "        size_new = size_current + size_add\n", "        size_new = max(size_current, size_add)\n",
    "stored row count not accumulated on append")
mut("c03-append-hdr-rewrite", "C03", "esutil/sfile.py",
    "        if self._hdr is not None:\n            # we are appending data.",
    "        if self._hdr is not None and header is None:\n            # we are appending data.",
    "an append that passes header= rewrites the header over the data")
# ---------------------------------------------------------------- C04
mut("c04-15-digits", "C04", "esutil/recfile/records.cpp", 'formats[NPY_DOUBLE] = "%.16g";', 'formats[NPY_DOUBLE] = "%.15g";',
    "doubles printed with 15 significant digits")
mut("c04-header-keeps-byteorder", "C04", "esutil/sfile.py",
    "            descr = self._remove_byteorder(descr)\n", "            pass\n",
    "text header keeps the byte-order characters of the written array")
mut("c04-string-delim-eats", "C04", "esutil/recfile/records.cpp",
    "            while (c == ' ') {\n                c = fgetc(mFptr);\n            }",
    "            while (c == ' ' || c == '\\t') {\n                c = fgetc(mFptr);\n            }",
    "blanks AND tabs skipped before the delimiter: with a tab delimiter the leading tab/blank of the next string field is eaten")
# ---------------------------------------------------------------- C10
mut("c10-warm-start", "C10", "esutil/wcsutil.py",
    "        xyguess[0], xyguess[1] = self.sky2image(\n            lon, lat, find=False, distort=False,\n        )\n        xy = self._fsolve_xy(xyguess, xtol=xtol)\n",
    "        if xyguess[0] == 0.0 and xyguess[1] == 0.0:\n            xyguess[0], xyguess[1] = self.sky2image(\n                lon, lat, find=False, distort=False,\n            )\n        xy = self._fsolve_xy(xyguess, xtol=xtol)\n        xyguess[:] = xy\n",
    "root finder warm-started from the previous solution ('optimisation'): answers depend on the previous search")
mut("c10-pv-swap", "C10", "esutil/wcsutil.py",
    '_scamp_map["pv2_8"] = (1, 2)\n_scamp_map["pv2_9"] = (2, 1)', '_scamp_map["pv2_8"] = (2, 1)\n_scamp_map["pv2_9"] = (1, 2)',
    "two third-order TPV terms of the second axis swapped")
mut("c10-lon-360", "C10", "esutil/wcsutil.py",
    "            if longitude >= 360.0:\n                longitude -= 360.0\n", "            if longitude > 360.0:\n                longitude -= 360.0\n",
    "scalar path returns longitude 360.0 instead of 0.0")
# ---------------------------------------------------------------- C12
mut("c12-file-g", "C12", "esutil/htm/htmc.cc", '"%ld %ld %.16g\\n"', '"%ld %ld %g\\n"', "pair file written with %g")
mut("c12-maxmatch-off", "C12", "esutil/htm/htmc.cc", "                if (nkeep > maxmatch) {\n                    nkeep=maxmatch;",
    "                if (nkeep > maxmatch+1) {\n                    nkeep=maxmatch+1;", "maxmatch keeps one pair too many")
mut("c12-radius-first", "C12", "esutil/htm/htmc.cc", "        if (nrad > 1) {\n            rad = *(double *) PyArray_GETPTR1((PyArrayObject *) radius_array, i_input);",
    "        if (nrad > 1 && i_input > 0) {\n            rad = *(double *) PyArray_GETPTR1((PyArrayObject *) radius_array, i_input);",
    "per-point radius not loaded for the first point (uses 0)")
# ---------------------------------------------------------------- C17
mut("c17-cache-never-refreshed", "C17", "esutil/integrate/util.py", "            if self.npts != npts:", "            if self.npts is None:",
    "cached nodes never refreshed when npts changes")
mut("c17-q2-transposed", "C17", "esutil/integrate/util.py", "        wxgrid = ones((ny, nx)) * wx[newaxis, :]\n        wygrid = ones((ny, nx)) * wy[:, newaxis]",
    "        wxgrid = ones((ny, nx)) * wx[newaxis, :]\n        wygrid = (ones((nx, ny)) * wy[newaxis, :]).T if nx != ny else ones((ny, nx)) * wy[newaxis, :]",
    "QGauss2 y-weights applied along the wrong axis when nx == ny")
# ---------------------------------------------------------------- C19
mut("c19-no-atbound", "C19", "esutil/coords.py", "        atbound(rand_ra, 0.0, 360.0)\n", "        pass\n", "ra of cap points not folded into [0,360]")
mut("c19-grid-shift", "C19", "esutil/random.py", "                self.xvals = self.xinput[1:]\n\n    def initialize_func", "                self.xvals = self.xinput[:-1]\n\n    def initialize_func",
    "tabulated sampler pairs the cumulative table with x[:-1] instead of x[1:]")
mut("c19-global-rng", "C19", "esutil/coords.py", "    v = rng.uniform(low=cosdec_min, high=cosdec_max, size=num)", "    v = np.random.uniform(low=cosdec_min, high=cosdec_max, size=num)",
    "randsphere draws latitudes from numpy's global generator")
mut("c19-chol-mean", "C19", "esutil/random.py", "        for i in range(npar):\n            V[i, :] += mean[i]\n\n        samples = V.T", "        for i in range(npar):\n            V[i, :] += mean[0]\n\n        samples = V.T",
    "CholeskySampler adds the first mean to every component")
# ---------------------------------------------------------------- C20
mut("c20-as-completed", "C20", "esutil/pbar.py",
    "    with ProcessPoolExecutor(max_workers=nproc) as ex:\n        res = list(pbar(ex.map(fn, iterable, chunksize=chunksize), **kw))\n",
    "    from concurrent.futures import as_completed\n    with ProcessPoolExecutor(max_workers=nproc) as ex:\n        futs = [ex.submit(fn, it) for it in iterable]\n        res = [f.result() for f in pbar(as_completed(futs), **kw)]\n",
    "pmap collects results in completion order")
mut("c20-eager", "C20", "esutil/pbar.py", "    n = 0\n    for obj in iterable:\n        yield obj\n", "    n = 0\n    for obj in list(iterable) if total is None else iterable:\n        yield obj\n",
    "length-less iterables are materialised before the first item is yielded")
mut("c20-isplit-larger-last", "C20", "esutil/algorithm.py", "        [0] + extras * [neach_section+1]\n        + (nchunks-extras) * [neach_section]",
    "        [0] + (nchunks-extras) * [neach_section]\n        + extras * [neach_section+1]", "isplit puts the larger chunks last")
# (first version used `top == end`: equivalent -- when the pivot stays at the end nothing was moved and data[end] still
# holds the pivot's value; replaced by the case where the pivot is the smallest key of the range)
mut("c20-kv-pivot-data", "C20", "esutil/algorithm.py", "    data[top] = pivot_data                # Put the pivot in its place.", "    data[top] = data[top] if top == start else pivot_data",
    "key-value partition leaves a stale value when the pivot is the smallest key of its range")
# ---------------------------------------------------------------- C15
mut("c15-inplace-native", "C15", "esutil/recfile/Util.py", "            dataview = to_native(dataview)\n", "            to_native_inplace(dataview)\n",
    "text output byte-swaps the caller's array in place (the original defect)")
mut("c15-wcs-inplace", "C15", "esutil/wcsutil.py", "        xdiff = x - self.crpix[0]\n        ydiff = y - self.crpix[1]\n\n        p = self.projection.upper()",
    "        if isinstance(x, np.ndarray) and x.dtype == np.float64 and x.flags.c_contiguous:\n            x -= self.crpix[0]\n            xdiff = x\n        else:\n            xdiff = x - self.crpix[0]\n        ydiff = y - self.crpix[1]\n\n        p = self.projection.upper()",
    "image2sky subtracts crpix in place for contiguous float64 input ('optimisation')")


def run(cmd, cwd=None, env=None, timeout=1800):
    p = subprocess.run(cmd, cwd=cwd, env=env, stdout=subprocess.PIPE, stderr=subprocess.STDOUT, timeout=timeout)
    return p.returncode, p.stdout.decode("utf-8", "replace")


def main():
    only = None
    suite = True
    args = sys.argv[1:]
    while args:
        a = args.pop(0)
        if a == "--only":
            only = set(args.pop(0).split(","))
        elif a == "--no-suite":
            suite = False
    results = []
    for m in M:
        if only and m["id"] not in only and m["prop"] not in only:
            continue
        tmp = tempfile.mkdtemp(prefix="esutil-mut-", dir="/tmp")
        try:
            rc, out = run(["bash", "-c", "git -C %s archive HEAD | tar -x -C %s" % (REPO, tmp)])
            path = os.path.join(tmp, m["path"])
            src = open(path).read()
            if src.count(m["old"]) != m["count"]:
                results.append(dict(id=m["id"], prop=m["prop"], status="NOT-APPLICABLE (pattern found %d times)" % src.count(m["old"]), note=m["note"]))
                print(results[-1])
                continue
            open(path, "w").write(src.replace(m["old"], m["new"]))
            suite_status = "not run"
            if suite:
                native = m["path"].endswith((".c", ".cc", ".cpp", ".h", ".hpp"))
                env = dict(os.environ)
                env["PYTHONPATH"] = tmp
                if native:
                    rc, out = run(["/venv/bin/python", "setup.py", "-q", "build_ext", "--inplace", "-j", "16"], cwd=tmp)
                    if rc != 0:
                        results.append(dict(id=m["id"], prop=m["prop"], status="DOES-NOT-BUILD", note=m["note"]))
                        print(results[-1], out[-500:])
                        continue
                else:
                    for root, _d, files in os.walk(os.path.join(REPO, "esutil")):
                        for f in files:
                            if f.endswith(".so"):
                                rel = os.path.relpath(os.path.join(root, f), REPO)
                                shutil.copyfile(os.path.join(root, f), os.path.join(tmp, rel))
                rc, out = run(["/venv/bin/python", "-m", "pytest", "-q", "-x", "-p", "no:cacheprovider", "-n", "8", "esutil"], cwd=tmp, env=env)
                suite_status = "passes" if rc == 0 else "FAILS"
                for root, _d, files in os.walk(tmp):
                    for f in files:
                        if f.endswith(".so"):
                            os.unlink(os.path.join(root, f))
                shutil.rmtree(os.path.join(tmp, "build"), ignore_errors=True)
            env = dict(os.environ)
            env["VERIF_REPO"] = tmp
            env["VERIF_EVIDENCE_DIR"] = os.path.join(tmp, "_evidence")
            env["VERIF_REPLAY_DIR"] = os.path.join(tmp, "_replays")
            rc, out = run([os.path.join(HERE, "vf"), "check", m["prop"], "--tier", "quick"], cwd=HERE, env=env)
            viol = [l for l in out.splitlines() if l.startswith("VIOLATION ")]
            oracles = [l.strip() for l in out.splitlines() if l.strip().startswith("oracle=")]
            status = "DETECTED" if rc == 1 and viol else ("MISSED (exit %d)" % rc)
            results.append(dict(id=m["id"], prop=m["prop"], status=status, suite=suite_status, note=m["note"],
                                oracles=[o.split(" ")[0] for o in oracles][:3]))
            print(json.dumps(results[-1]))
            sys.stdout.flush()
        finally:
            shutil.rmtree(tmp, ignore_errors=True)
    # restore evidence files written against mutants
    with open(os.path.join(HERE, "tools", "mutants_results.json"), "w") as fh:
        json.dump(results, fh, indent=1)
    det = sum(1 for r in results if r["status"] == "DETECTED")
    print("%d of %d mutants detected" % (det, len(results)))


if __name__ == "__main__":
    main()
