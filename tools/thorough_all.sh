#!/bin/bash
# runs the thorough tier of every claimed check once (evidence/replays go to a scratch directory)
here="$(cd "$(dirname "$0")/.." && pwd)"; cd "$here"
out=$(mktemp -d /var/tmp/esutil-thorough-XXXX)
for p in ${@:-C19 C17 C01 C02 C03 C04 C15 C10 C12 C20}; do
  /usr/bin/time -f "%e s wall" env VERIF_SEED=${VERIF_SEED:-3} VERIF_EVIDENCE_DIR=$out/ev VERIF_REPLAY_DIR=$out/replays ./vf check $p --tier thorough > $out/log 2>&1
  echo "$p exit=$? $(grep '^property=' $out/log | cut -c1-200) $(tail -1 $out/log)"
  grep -E "VIOLATION|HARNESS-ERROR|KNOWN-FINDING|oracle=" $out/log
  mkdir -p $here/soak_failures; cp $out/replays/* $here/soak_failures/ 2>/dev/null
done
rm -rf $out
