#!/usr/bin/env python3
"""Copy a sub-agent's deliverable (/tmp/seedout/<P>/<id>/) into /verif/seeded/<id>/ with a meta.json skeleton
(summary/needs are taken from notes.md's first bullet lines and edited by hand afterwards)."""
import json, os, shutil, sys
src, sid = sys.argv[1], sys.argv[2]
dst = os.path.join(os.path.dirname(os.path.dirname(os.path.abspath(__file__))), "seeded", sid)
os.makedirs(dst, exist_ok=True)
for f in ("patch.diff", "demo.py", "notes.md"):
    shutil.copyfile(os.path.join(src, f), os.path.join(dst, f))
notes = open(os.path.join(dst, "notes.md")).read()
title = notes.strip().splitlines()[0].lstrip("# ").strip()
meta = {"property": sid[:3], "summary": title, "needs": "see notes.md",
        "written_by": "fresh sub-agent given only the property text and a scratch worktree",
        "verified": {}}
mp = os.path.join(dst, "meta.json")
if not os.path.exists(mp):
    json.dump(meta, open(mp, "w"), indent=1)
print(sid, title)
