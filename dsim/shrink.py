"""
Minimisation of a failing script: ddmin over the operation list, then the engine's own
argument simplifiers, then ddmin again; every candidate is executed in a forked child, and
a candidate is kept only if the same oracle id fails.
"""
import copy
import time

from . import runner


def _fails(script, oid, session, prop):
    res = runner.isolated(script, session, prop, timeout=25 if oid in ("hang", "crash") else 60)
    if res["status"] == "harness-exception":
        return False
    return any(f["oracle"] == oid for f in res["failures"])


def _ddmin(script, key, test, deadline):
    ops = list(script[key])
    n = 2
    while len(ops) >= 2 and time.time() < deadline:
        chunk = max(1, len(ops) // n)
        reduced = False
        i = 0
        while i < len(ops) and time.time() < deadline:
            cand_ops = ops[:i] + ops[i + chunk:]
            if cand_ops:
                cand = dict(script)
                cand[key] = cand_ops
                if test(cand):
                    ops = cand_ops
                    n = max(n - 1, 2)
                    reduced = True
                    continue
            i += chunk
        if not reduced:
            if chunk == 1:
                break
            n = min(len(ops), n * 2)
    out = dict(script)
    out[key] = ops
    return out


def minimise(script, oid, session, prop, budget_s):
    """Returns (script, reproduced?)."""
    deadline = time.time() + budget_s
    test = lambda s: _fails(s, oid, session, prop)
    if not test(script):
        return script, False
    eng = runner.get_engine(script["engine"])
    cur = copy.deepcopy(script)
    for _round in range(3):
        before = runner.kernel.dumps(cur)
        if "ops" in cur and len(cur["ops"]) > 1:
            cur = _ddmin(cur, "ops", test, deadline)
        if hasattr(eng, "simplify"):
            progress = True
            while progress and time.time() < deadline:
                progress = False
                for cand in eng.simplify(cur):
                    if time.time() >= deadline:
                        break
                    if test(cand):
                        cur = cand
                        progress = True
                        break
        if runner.kernel.dumps(cur) == before or time.time() >= deadline:
            break
    return cur, True
