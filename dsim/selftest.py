"""
Self-tests of the machinery (never part of a property check's exit code):

  determinism  N run indices per claimed property and part: same script executed twice in one
               process, once more in a fresh interpreter under another PYTHONHASHSEED, and the
               whole index range once through the forked runner at two worker counts; all
               event-log digests must agree.
  reach        runs the quick tier of every check at reduced scale and fails when a
               perturbation counter or probe listed in props.EXPECT_REACH stayed at zero.
  codec        round trip of the script codec.
"""
import hashlib
import json
import os
import shutil
import subprocess
import sys

from . import kernel, props, runner


def _digests(prop, part, n, vseed, twice=True):
    session = runner.session_dir()
    env = runner.Env(session)
    out = []
    bad = []
    try:
        for idx in range(n):
            rs, script = runner.plan(part, prop, "quick", vseed, idx, [])
            # the plan itself must be a pure function of the seed
            rs2, script2 = runner.plan(part, prop, "quick", vseed, idx, [])
            if kernel.dumps(script) != kernel.dumps(script2):
                bad.append((prop, part["engine"], part.get("mode", ""), idx, "plan differs"))
            # and must survive the codec unchanged
            if kernel.dumps(kernel.loads(kernel.dumps(script))) != kernel.dumps(script):
                bad.append((prop, part["engine"], part.get("mode", ""), idx, "codec round trip differs"))
            r1 = runner.execute(script, env, prop)
            d = r1.digest()
            if twice:
                r2 = runner.execute(kernel.loads(kernel.dumps(script)), env, prop)
                # an inconclusive pool run (real dispatch did not follow the model within the watchdog, e.g. on an
                # overloaded machine) is timing dependent by nature and is not compared
                if r2.digest() != d and not (r1.inconclusive or r2.inconclusive):
                    bad.append((prop, part["engine"], part.get("mode", ""), idx, "second execution differs"))
            out.append("inconclusive" if r1.inconclusive else d)
    finally:
        shutil.rmtree(session, ignore_errors=True)
    return out, bad


def child(argv):
    n = int(argv[0])
    vseed = int(argv[1])
    plist = argv[2].split(",")
    res = {}
    for prop in plist:
        for pi, part in enumerate(props.SPECS[prop]["parts"]):
            res["%s/%d" % (prop, pi)] = _digests(prop, part, n, vseed, twice=False)[0]
    sys.stdout.write("DIGESTS " + json.dumps(res) + "\n")
    return 0


def determinism(n, plist, vseed):
    ok = True
    mine = {}
    for prop in plist:
        for pi, part in enumerate(props.SPECS[prop]["parts"]):
            ds, bad = _digests(prop, part, n, vseed)
            mine["%s/%d" % (prop, pi)] = ds
            for b in bad:
                ok = False
                print("NONDETERMINISTIC %r" % (b,))
            print("%s part %d (%s %s): %d runs, %d distinct digests, in-process repeat %s" % (
                prop, pi, part["engine"], part.get("mode", ""), len(ds), len(set(ds)), "ok" if not bad else "FAILED"))
    # fresh interpreter, other hash seed
    for hs in ("1", "4242"):
        env = dict(os.environ)
        env["PYTHONHASHSEED"] = hs
        p = subprocess.run([sys.executable, "-c",
                            "import sys; from dsim import selftest; sys.exit(selftest.child(sys.argv[1:]))",
                            str(n), str(vseed), ",".join(plist)], env=env, stdout=subprocess.PIPE,
                           stderr=subprocess.PIPE, timeout=3600)
        line = [l for l in p.stdout.decode().splitlines() if l.startswith("DIGESTS ")]
        if p.returncode != 0 or not line:
            print("child interpreter failed:\n" + p.stderr.decode()[-3000:])
            ok = False
            continue
        other = json.loads(line[0][8:])
        for k in mine:
            diff = [i for i, (a, b) in enumerate(zip(mine[k], other.get(k, []))) if a != b and "inconclusive" not in (a, b)]
            if diff or len(other.get(k, [])) != len(mine[k]):
                ok = False
                print("NONDETERMINISTIC %s under PYTHONHASHSEED=%s at indices %r" % (k, hs, diff[:10]))
        print("fresh interpreter PYTHONHASHSEED=%s: %s" % (hs, "ok" if ok else "FAILED"))
    # forked runner at two worker counts
    for prop in plist:
        for pi, part in enumerate(props.SPECS[prop]["parts"]):
            got = []
            inc = []
            for jobs in (3, 16):
                session = runner.session_dir()
                try:
                    M, info = runner.run_part(part, prop, "quick", vseed, n, jobs, 600, session, [], print)
                finally:
                    shutil.rmtree(session, ignore_errors=True)
                got.append(sorted(M["digests"]))
                inc.append(M["inconclusive"])
            if "inconclusive" in mine["%s/%d" % (prop, pi)] or any(M_inc for M_inc in inc):
                continue
            want = sorted(int(d[:16], 16) for d in mine["%s/%d" % (prop, pi)])
            if got[0] != got[1] or got[0] != want:
                ok = False
                print("NONDETERMINISTIC %s part %d across worker counts / fork" % (prop, pi))
    h = hashlib.sha256(json.dumps(mine, sort_keys=True).encode()).hexdigest()[:16]
    print("determinism selftest: %s (combined digest %s)" % ("PASS" if ok else "FAIL", h))
    return 0 if ok else 1


def codec():
    import numpy as np
    vals = [None, True, 3, -0.0, float("inf"), float("nan"), 1e-320, b"a\x00b", (1, (2, [3])), {"a": {"b": (1,)}},
            {1: "x", (2, 3): b"y"}, slice(1, None, 2), np.dtype([("a", ">i4"), ("b", "S3", (2, 2))]),
            np.arange(6, dtype=">f8").reshape(2, 3), 2 + 3j,
            np.zeros(3, dtype=[("x", "<u2"), ("s", "S4"), ("m", ">f4", (2,))])]
    ok = True
    for v in vals:
        s = kernel.dumps(v)
        w = kernel.loads(s)
        if kernel.dumps(w) != s:
            ok = False
            print("codec mismatch for %r" % (v,))
    print("codec selftest: %s" % ("PASS" if ok else "FAIL"))
    return 0 if ok else 1


def reach(plist, vseed):
    ok = True
    scratch = None
    if not os.environ.get("VERIF_EVIDENCE_DIR"):
        # the scaled runs of this self-test must not replace the evidence of the real checks
        import tempfile
        scratch = os.environ["VERIF_EVIDENCE_DIR"] = tempfile.mkdtemp(prefix="esutil-reach-", dir="/var/tmp")
        os.environ.setdefault("VERIF_REPLAY_DIR", os.environ["VERIF_EVIDENCE_DIR"])
    for prop in plist:
        spec = props.SPECS[prop]
        expect = spec.get("expect_reach", [])
        os.environ["VERIF_SCALE"] = os.environ.get("VERIF_REACH_SCALE", "0.25")
        rc = runner.check(prop, "quick", spec, vseed, min(16, os.cpu_count() or 1), "selftest-reach",
                          log=lambda *_a: None)
        with open(os.path.join(os.environ.get("VERIF_EVIDENCE_DIR") or os.path.join(runner.VERIF_DIR, "evidence"), prop + ".json")) as fh:
            cov = json.load(fh)["coverage"]
        seen = dict(cov["faults_fired"])
        seen.update(cov["probes"])
        missing = [e for e in expect if not seen.get(e)]
        print("%s: exit %d, %d perturbation kinds fired, missing %r" % (prop, rc, len(cov["faults_fired"]), missing))
        if missing or rc != 0:
            ok = False          # (the unchanged tree must also come out clean: exit 1 or 2 here is a broken check)
    if scratch:
        import shutil
        shutil.rmtree(scratch, ignore_errors=True)
    print("reach selftest: %s" % ("PASS" if ok else "FAIL"))
    return 0 if ok else 1


def main(what, n, plist, vseed):
    plist = plist or sorted(props.SPECS)
    if what == "determinism":
        return determinism(n, plist, vseed)
    if what == "codec":
        return codec()
    if what == "reach":
        return reach(plist, vseed)
    return 2
