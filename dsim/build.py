"""
Snapshot of $VERIF_REPO's working tree + `setup.py build_ext --inplace`, with a small
content-addressed cache under the scratch root.  Standard library only (runs before the
re-exec that puts the snapshot on PYTHONPATH).
"""
import fcntl
import hashlib
import os
import shutil
import subprocess
import sys
import time

EXCLUDE_DIRS = {".git", "__pycache__", "build", "tmp", "dist", ".pytest_cache",
                "esutil.egg-info", ".eggs", ".hypothesis"}
EXCLUDE_SUFFIX = (".so", ".pyc", ".pyo", ".o", ".os", ".exe")
EXTENSIONS = ["esutil/recfile/_records", "esutil/cosmology/_cosmolib", "esutil/htm/_htmc",
              "esutil/stat/_chist", "esutil/integrate/_cgauleg"]
NATIVE_SUFFIX = (".c", ".cc", ".cpp", ".cxx", ".h", ".hpp")
MAX_CACHED = 5


def _native_donor(builds, nh, exclude):
    for n in sorted(os.listdir(builds)):
        p = os.path.join(builds, n)
        if p == exclude or not os.path.isdir(p) or not _built(p):
            continue
        try:
            with open(os.path.join(p, ".native")) as fh:
                if fh.read().strip() == nh:
                    return p
        except OSError:
            continue
    return None


def scratch_root():
    r = os.environ.get("VERIF_SCRATCH")
    if not r:
        for cand in ("/dev/shm", "/var/tmp"):
            if os.path.isdir(cand) and os.access(cand, os.W_OK):
                r = os.path.join(cand, "esutil-verif-%d" % os.getuid())
                break
        else:
            r = os.path.join("/var/tmp", "esutil-verif-%d" % os.getuid())
    os.makedirs(r, exist_ok=True)
    return r


def _walk(repo):
    out = []
    for root, dirs, files in os.walk(repo):
        dirs[:] = sorted(d for d in dirs if d not in EXCLUDE_DIRS)
        for f in sorted(files):
            if f.endswith(EXCLUDE_SUFFIX):
                continue
            p = os.path.join(root, f)
            if os.path.islink(p) or not os.path.isfile(p):
                continue
            out.append(os.path.relpath(p, repo))
    return out


def tree_hash(repo, files=None):
    h = hashlib.sha256()
    for rel in (files if files is not None else _walk(repo)):
        h.update(rel.encode() + b"\0")
        with open(os.path.join(repo, rel), "rb") as fh:
            h.update(hashlib.sha256(fh.read()).digest())
    h.update(sys.version.encode())
    return h.hexdigest()[:20]


def _copy_tree(repo, files, dest):
    for rel in files:
        d = os.path.join(dest, rel)
        os.makedirs(os.path.dirname(d), exist_ok=True)
        shutil.copyfile(os.path.join(repo, rel), d)


def _built(dirpath):
    if not os.path.exists(os.path.join(dirpath, ".ok")):
        return False
    for e in EXTENSIONS:
        d, b = os.path.split(os.path.join(dirpath, e))
        if not os.path.isdir(d) or not any(
                n.startswith(b + ".") and n.endswith(".so") for n in os.listdir(d)):
            return False
    return True


def _prune(builds, keep):
    ents = []
    for n in os.listdir(builds):
        p = os.path.join(builds, n)
        if not os.path.isdir(p) or p == keep:
            continue
        try:
            ents.append((os.path.getmtime(p), p))
        except OSError:
            pass
    ents.sort(reverse=True)
    for _, p in ents[MAX_CACHED - 1:]:
        # only remove a build nobody holds a shared lock on
        lk = p + ".lock"
        try:
            fd = os.open(lk, os.O_CREAT | os.O_RDWR, 0o644)
        except OSError:
            continue
        try:
            fcntl.flock(fd, fcntl.LOCK_EX | fcntl.LOCK_NB)
        except OSError:
            os.close(fd)
            continue
        shutil.rmtree(p, ignore_errors=True)
        try:
            os.unlink(lk)
        except OSError:
            pass
        os.close(fd)


def ensure_build(repo, log=None):
    """Return (build_dir, lock_fd, info).  The caller keeps lock_fd open (shared lock) for as
    long as it uses the build."""
    t0 = time.time()
    repo = os.path.abspath(repo)
    if not os.path.isfile(os.path.join(repo, "setup.py")):
        raise RuntimeError("no setup.py under %s" % repo)
    files = _walk(repo)
    th = tree_hash(repo, files)
    builds = os.path.join(scratch_root(), "builds")
    os.makedirs(builds, exist_ok=True)
    bdir = os.path.join(builds, th)
    lockpath = bdir + ".lock"
    no_cache = os.environ.get("VERIF_NO_CACHE") == "1"
    fd = os.open(lockpath, os.O_CREAT | os.O_RDWR, 0o644)
    # fast path: a finished build only needs the shared lock (checks hold it for as long as they run; asking for
    # the exclusive lock first would queue every new check behind all the running ones)
    if not no_cache:
        fcntl.flock(fd, fcntl.LOCK_SH)
        if _built(bdir):
            try:
                os.utime(bdir, None)
            except OSError:
                pass
            return bdir, fd, {"tree_hash": th, "cached": True, "build_s": round(time.time() - t0, 2), "files": len(files)}
        fcntl.flock(fd, fcntl.LOCK_UN)
    fcntl.flock(fd, fcntl.LOCK_EX)
    cached = True
    try:
        if no_cache and os.path.isdir(bdir):
            shutil.rmtree(bdir, ignore_errors=True)
        if not _built(bdir):
            cached = False
            shutil.rmtree(bdir, ignore_errors=True)
            os.makedirs(bdir)
            _copy_tree(repo, files, bdir)
            nh = tree_hash(repo, [f for f in files if f.endswith(NATIVE_SUFFIX) or f == "setup.py"])
            with open(os.path.join(bdir, ".native"), "w") as fh:
                fh.write(nh + "\n")
            donor = None if no_cache else _native_donor(builds, nh, bdir)
            if donor is not None:
                # same C/C++ sources as an existing build: reuse its extension modules
                for e in EXTENSIONS:
                    d, b = os.path.split(os.path.join(donor, e))
                    for n in os.listdir(d):
                        if n.startswith(b + ".") and n.endswith(".so"):
                            shutil.copyfile(os.path.join(d, n), os.path.join(os.path.dirname(os.path.join(bdir, e)), n))
                with open(os.path.join(bdir, ".ok"), "w") as fh:
                    fh.write(th + " (extensions reused from %s)\n" % os.path.basename(donor))
        if not _built(bdir):
            env = dict(os.environ)
            env.pop("PYTHONPATH", None)
            cmd = [sys.executable, "setup.py", "-q", "build_ext", "--inplace",
                   "-j", str(min(16, os.cpu_count() or 1))]
            p = subprocess.run(cmd, cwd=bdir, env=env, stdout=subprocess.PIPE,
                               stderr=subprocess.STDOUT, timeout=1800)
            if p.returncode != 0:
                out = p.stdout.decode("utf-8", "replace")
                shutil.rmtree(bdir, ignore_errors=True)
                raise RuntimeError("build_ext failed:\n" + out[-6000:])
            shutil.rmtree(os.path.join(bdir, "build"), ignore_errors=True)
            shutil.rmtree(os.path.join(bdir, "tmp"), ignore_errors=True)
            with open(os.path.join(bdir, ".ok"), "w") as fh:
                fh.write(th + "\n")
            if not _built(bdir):
                raise RuntimeError("build finished but extensions are missing in %s" % bdir)
        else:
            os.utime(bdir, None)
    finally:
        fcntl.flock(fd, fcntl.LOCK_UN)
    fcntl.flock(fd, fcntl.LOCK_SH)
    try:
        _prune(builds, bdir)
    except OSError:
        pass
    info = {"tree_hash": th, "cached": cached, "build_s": round(time.time() - t0, 2),
            "files": len(files)}
    return bdir, fd, info
