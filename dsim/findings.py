"""
known_findings.json: genuine defects of esheldon/esutil that were recorded rather than
repaired ("open", with a matcher) or repaired by a `fix:` commit ("fixed", suppresses
nothing).  The file is read only; nothing here ever writes it.
"""
import json
import os

PATH = os.path.join(os.path.dirname(os.path.dirname(os.path.abspath(__file__))),
                    "known_findings.json")


def load(path=PATH):
    if not os.path.exists(path):
        return []
    with open(path) as fh:
        doc = json.load(fh)
    return doc.get("findings", [])


def open_for(findings, prop):
    return [f for f in findings if f.get("status") == "open" and f.get("property") == prop]


def matches(entry, oracle, features):
    if entry.get("oracle") != oracle:
        return False
    for k, v in entry.get("features", {}).items():
        if k not in features:
            return False
        fv = features[k]
        if isinstance(v, list):
            if fv not in v:
                return False
        elif fv != v:
            return False
    return True


def match(open_entries, oracle, features):
    for e in open_entries:
        if matches(e, oracle, features):
            return e
    return None
