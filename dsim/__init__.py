"""Deterministic simulation with fault injection for esheldon/esutil (see /verif/DESIGN.md)."""
