"""
./vf check <P> [--tier quick|thorough]   ./vf replay <file>   ./vf selftest <what>   ./vf setup

Stage 1 (standard library only): snapshot + build $VERIF_REPO, then re-exec with the
snapshot first on PYTHONPATH, a pinned PYTHONHASHSEED and single-threaded BLAS.
Stage 2: run.
"""
import os
import sys

HERE = os.path.dirname(os.path.abspath(__file__))
VERIF = os.path.dirname(HERE)


def stage1(argv):
    sys.path.insert(0, VERIF)
    from dsim import build
    repo = os.environ.get("VERIF_REPO", "/repo")
    try:
        bdir, fd, info = build.ensure_build(repo)
    except Exception as e:  # build failure is a harness error, never a violation
        print("HARNESS-ERROR: cannot build %s: %s" % (repo, e))
        sys.exit(2)
    os.set_inheritable(fd, True)
    env = dict(os.environ)
    env["PYTHONPATH"] = bdir + os.pathsep + VERIF
    env["PYTHONHASHSEED"] = env.get("VERIF_HASHSEED", "0")
    for k in ("OPENBLAS_NUM_THREADS", "OMP_NUM_THREADS", "MKL_NUM_THREADS"):
        env[k] = "1"
    env["PYTHONDONTWRITEBYTECODE"] = "1"
    env["VERIF_STAGE"] = "2"
    env["VERIF_BUILD"] = bdir
    env["VERIF_BUILD_INFO"] = "%s cached=%s build_s=%s" % (info["tree_hash"], info["cached"], info["build_s"])
    env["VERIF_REPO"] = repo
    sys.stdout.flush()
    os.execve(sys.executable, [sys.executable, "-m", "dsim.main"] + argv, env)


def stage2(argv):
    import argparse
    bdir = os.environ["VERIF_BUILD"]
    import warnings
    warnings.simplefilter("ignore")     # numpy RuntimeWarnings from deliberately extreme inputs are noise here
    import esutil
    if not os.path.abspath(esutil.__file__).startswith(os.path.abspath(bdir) + os.sep):
        print("HARNESS-ERROR: esutil imported from %s, not from the snapshot %s" % (esutil.__file__, bdir))
        sys.exit(2)
    for m in ("esutil.recfile._records", "esutil.htm._htmc", "esutil.integrate._cgauleg",
              "esutil.stat._chist", "esutil.cosmology._cosmolib"):
        mod = __import__(m, fromlist=["x"])
        if not os.path.abspath(mod.__file__).startswith(os.path.abspath(bdir) + os.sep):
            print("HARNESS-ERROR: %s imported from %s" % (m, mod.__file__))
            sys.exit(2)

    ap = argparse.ArgumentParser(prog="vf")
    sub = ap.add_subparsers(dest="cmd", required=True)
    c = sub.add_parser("check")
    c.add_argument("prop")
    c.add_argument("--tier", default=os.environ.get("VERIF_TIER") or "quick",
                   choices=["quick", "thorough"])
    r = sub.add_parser("replay")
    r.add_argument("path")
    s = sub.add_parser("selftest")
    s.add_argument("what", choices=["determinism", "reach", "codec"])
    s.add_argument("--n", type=int, default=40)
    s.add_argument("--props", default="")
    sub.add_parser("setup")
    pl = sub.add_parser("plan")
    pl.add_argument("prop")
    pl.add_argument("index", type=int)
    pl.add_argument("--part", type=int, default=0)
    pl.add_argument("--run", action="store_true")
    a = ap.parse_args(argv)

    vseed = int(os.environ.get("VERIF_SEED", "0") or 0)
    jobs = int(os.environ.get("VERIF_JOBS", "0") or 0) or min(16, os.cpu_count() or 1)
    from dsim import runner, props
    if a.cmd == "setup":
        print("setup ok: esutil snapshot %s (%s)" % (bdir, os.environ.get("VERIF_BUILD_INFO")))
        return 0
    if a.cmd == "check":
        print("VERIF_SEED=%d property=%s tier=%s jobs=%d repo=%s build=%s" % (
            vseed, a.prop, a.tier, jobs, os.environ.get("VERIF_REPO"), os.environ.get("VERIF_BUILD_INFO")))
        sys.stdout.flush()
        if a.prop not in props.SPECS:
            print("HARNESS-ERROR: property %s is not claimed (see MANIFEST.json not_applicable)" % a.prop)
            return 2
        return runner.check(a.prop, a.tier, props.SPECS[a.prop], vseed, jobs,
                            os.environ.get("VERIF_BUILD_INFO", ""))
    if a.cmd == "replay":
        return runner.replay(a.path)
    if a.cmd == "selftest":
        from dsim import selftest
        return selftest.main(a.what, a.n, [p for p in a.props.split(",") if p], vseed)
    if a.cmd == "plan":
        import json
        from dsim import kernel
        spec = props.SPECS[a.prop]
        part = spec["parts"][a.part]
        rs, script = runner.plan(part, a.prop, "quick", vseed, a.index, [])
        print(json.dumps(kernel.enc(script), indent=1, sort_keys=True))
        if a.run:
            session = runner.session_dir()
            env = runner.Env(session)
            run = runner.execute(script, env, a.prop)
            for e in run.events:
                print(e)
            for f in run.failures:
                print("FAIL", f.as_dict())
            print("digest", run.digest(), "faults", run.faults, "probes", run.probes)
            import shutil
            shutil.rmtree(session, ignore_errors=True)
        return 0
    return 2


if __name__ == "__main__":
    if os.environ.get("VERIF_STAGE") == "2":
        sys.exit(stage2(sys.argv[1:]))
    else:
        stage1(sys.argv[1:])
