"""
recsim -- record files on a scratch disk under seeded operation histories (C01-C04, C15).

Simulator-owned: what is on the disk before each operation (stale files, the other file form,
older longer files), which handle or entry point touches a path next, interleaving of several
logical callers, reuse of live objects through .open(), requests that must be rejected.
Real: esutil.sfile, esutil.recfile (Python + _records C++), esutil.io, glibc stdio, the kernel
file system.  Oracles: in-memory table model, independent parser of the durable bytes.
"""
import gc
import os
import weakref

import numpy as np

from ..kernel import adigest, sdigest, HarnessBug, scribble, Held
from ..refs import rectab as T
from .. import present
from .recplan import plan, simplify, describe  # noqa: F401  (engine interface)

REAL = ["esutil.sfile", "esutil.recfile (Python + _records C++)", "esutil.io", "glibc stdio", "kernel file system"]
STUB = []


# =========================================================================== world

class World(object):
    def __init__(self, root, run, script):
        self.root = root
        self.run = run
        self.prop = run.prop
        self.files = {}      # path -> model dict or None (exists but unusable/empty)
        self.handles = {}    # name -> dict
        self.tabcache = {}
        self.cfg = script.get("cfg", {})
        self.workbufs = []   # chunks handed to writers by the operation that just finished
        self.held = Held()   # results the caller still holds: verified unchanged, then edited, before the next operation
        self.nspell = 0
        self.elsewhere = None   # the directory the caller has changed to (None: the scratch disk itself)
        self.renamebufs = []
        self.reused = {}     # (caller, kind) -> long-lived SFile / Recfile object re-open()ed per file
        self.cur = 0         # caller of the operation being executed
        self.nreuse = 0

    def reuse(self, kind, mods, path, mode, **kw):
        """the caller's long-lived object of that kind, (re)opened on path"""
        key = (self.cur, kind)
        obj = self.reused.get(key)
        cls = mods["sfile"].SFile if kind == "SFile" else mods["recfile"].Recfile
        if obj is None:
            obj = self.reused[key] = cls(path, mode, **kw)
        else:
            self.run.fault("long_lived_object_reopened")
            obj.open(path, mode, **kw)
        self.nreuse += 1
        return obj

    def release(self, obj, force=False):
        # every other use leaves the object open: the next open() has to clean up itself
        if force or self.nreuse % 2 == 0:
            obj.close()

    def path(self, p):
        return os.path.join(self.root, p)

    def epath(self, p):
        """the file name as the CALLER writes it when handing it to esutil: absolute, or with an environment
        variable or a home-directory tilde that esutil expands itself (sfile and recfile both do)"""
        form = self.cfg.get("pathform", "abs")
        if form == "mixed":
            # the same file is spelled differently from call to call: absolute, relative to the current directory
            # (the run's scratch disk), through an environment variable, through the home directory
            self.nspell += 1
            form = ("abs", "rel", "var", "home", "rel2")[(self.nspell * 7 + len(p)) % 5]
        if form == "rel":
            return p if self.elsewhere is None else os.path.relpath(self.path(p), os.getcwd())
        if form == "rel2":
            return "./" + (p if self.elsewhere is None else os.path.relpath(self.path(p), os.getcwd()))
        if form == "var":
            return "$ESUTIL_SIMDISK/" + p
        if form == "home":
            return "~/" + p
        return os.path.join(self.root, p)

    def table(self, rec, form, delim):
        key = sdigest([rec, form, delim])
        t = self.tabcache.get(key)
        if t is None:
            if rec.get("rawstr"):
                # (C15 only: what is judged is the caller's memory, not the file) byte strings with any content --
                # line breaks, NULs, delimiter characters -- even when the table goes to a text file
                f2 = [dict(f, p="wide") if f["t"][0] == "S" else f for f in rec["fields"]]
                t = T.make_table(f2, rec["nrows"], rec["dseed"], "bin", delim)
                for f in f2:
                    if f["t"][0] == "S" and t.shape[0]:
                        col = t[f["n"]]
                        raw = np.array(col).view("u1").reshape(-1)
                        raw[3::7] = 0x0A
                        t[f["n"]] = raw.view(col.dtype).reshape(col.shape)
            else:
                t = T.make_table(rec["fields"], rec["nrows"], rec["dseed"], form, delim)
            self.tabcache[key] = t
        return t

    def raw(self, p):
        with open(self.path(p), "rb") as fh:
            return fh.read()

    def expected(self, m):
        """the table a full read must return (for text: native order)."""
        ch = m["chunks"] if m["delim"] is None else [T.to_native(c) for c in m["chunks"]]
        if len(ch) == 1:
            return ch[0]
        # not np.concatenate: it canonicalises the byte order of structured dtypes
        out = np.empty(sum(c.shape[0] for c in ch), dtype=ch[0].dtype)
        k = 0
        for c in ch:
            out[k:k + c.shape[0]] = c
            k += c.shape[0]
        return out

    def nrows(self, m):
        return sum(c.shape[0] for c in m["chunks"])


def _handed(w, op, tab):
    """the chunk as the caller hands it to the writer: 1-d, or (rarely) the same rows as a C-contiguous 2-d array
    (rows in C order) -- esutil writes data.size rows either way"""
    nd = op.get("nd")
    # what is handed over is the caller's WORK BUFFER (a copy of the model's rows): the caller refills it as soon as
    # the call has returned, before it does anything else
    buf = tab.copy()
    if op.get("rename_after") and tab.dtype.names:
        # ... and, rarely, RENAMES the fields of its buffer in place afterwards (arr.dtype.names = ...): the buffer gets
        # a dtype object of its own so that nothing else shares the renamed one
        dt2 = np.dtype([(nm, tab.dtype.fields[nm][0]) for nm in tab.dtype.names])
        buf = np.empty(tab.shape, dtype=dt2)
        buf[...] = tab
        w.renamebufs.append(buf)
    w.workbufs.append(buf)
    if nd and tab.ndim == 1 and tab.shape[0] == nd[0] * nd[1] and nd[0] > 1 and nd[1] > 1:
        w.run.fault("chunk_handed_over_as_2d_array")
        return buf.reshape(nd[0], nd[1])
    return buf


def _fstate(m):
    if m is None:
        return "unusable"
    return "%s|%s|hdr=%s|chunks=%d|stale=%s" % (m["form"], "txt" if m["delim"] else "bin", bool(m["hdr"]),
                                                 min(3, len(m["chunks"])), m.get("stale", False))


def _feat(m, **kw):
    f = {"form": m["form"] if m else "none", "text": bool(m and m["delim"])}
    if m and m["delim"]:
        f["delim"] = m["delim"]
    f.update(kw)
    return f


# =========================================================================== judged comparisons

def table_diff(w, m, got, exp=None):
    exp = w.expected(m) if exp is None else exp
    if m["delim"] is None:
        return T.exact_table_diff(got, exp)
    return T.text_table_diff(got, exp)


def _scribble(w, hdr):
    """The caller owns the header dict it was handed: it edits it (the usual 'read the header, tweak it, write a
    derived file').  Later reads of the SAME file must not see those edits."""
    if not isinstance(hdr, dict):
        return
    try:
        for k in list(hdr):
            v = hdr[k]
            if isinstance(v, list):
                del v[:]
            elif isinstance(v, dict):
                v.clear()
        for k in [k for k in hdr if not (isinstance(k, str) and k.startswith("_"))][:2]:
            del hdr[k]
        hdr["_SIZE"] = -7
        hdr["_DTYPE"] = [("zz", "|i1")]
        hdr["_DELIM"] = "#"
        hdr["edited_by_caller"] = True
        w.run.fault("caller_edited_a_header_dict_it_was_handed")
    except Exception:
        pass


def check_header(w, m, hdr, oid, feats):
    run = w.run
    run.checks += 1
    if not isinstance(hdr, dict):
        run.fail(oid, feats, "header read back is %r, not a dict" % type(hdr))
        return
    user = m["hdr"] or {}
    for k, v in user.items():
        if isinstance(k, str) and k.startswith("_"):
            continue        # reserved names belong to the writer: what the caller passed for them is not promised back
        if k not in hdr:
            run.fail(oid, dict(feats, what="user-key-missing"), "user header key %r missing after read back" % k)
            return
        if not T.header_equal(hdr[k], v):
            run.fail(oid, dict(feats, what="user-value"), "user header key %r: wrote %r, read back %r" % (k, v, hdr[k]))
            return
    n = w.nrows(m)
    if hdr.get("_SIZE") != n:
        run.fail(oid, dict(feats, what="_SIZE"), "_SIZE read back as %r, %d rows were written" % (hdr.get("_SIZE"), n))
        return
    try:
        dt = np.dtype(hdr["_DTYPE"])
    except Exception as e:
        run.fail(oid, dict(feats, what="_DTYPE"), "_DTYPE %r does not reconstruct a dtype: %r" % (hdr.get("_DTYPE"), e))
        return
    want = m["dtype"] if m["delim"] is None else T.to_native(np.zeros(0, m["dtype"])).dtype
    if T.descr_of(dt) != T.descr_of(want):
        run.fail(oid, dict(feats, what="_DTYPE"), "_DTYPE reconstructs %r, the table has %r" % (T.descr_of(dt), T.descr_of(want)))
        return
    if m["delim"] is not None:
        if hdr.get("_DELIM") != m["delim"]:
            run.fail(oid, dict(feats, what="_DELIM"), "_DELIM read back as %r, file was written with %r" % (hdr.get("_DELIM"), m["delim"]))
            return
        desc = hdr["_DTYPE"]
        for d in desc:
            if d[1][:1] in "<>=|":
                run.fail(oid, dict(feats, what="_DTYPE-byteorder"), "text header dtype carries a byte-order character: %r" % (d,))
                return


def check_durable(w, p, oid):
    """Independent parse of the bytes on disk (no writer open on the path)."""
    run = w.run
    m = w.files.get(p)
    if m is None or m.get("writers", 0) > 0:
        return
    run.checks += 1
    feats = _feat(m, check="durable")
    raw = w.raw(p)
    n = w.nrows(m)
    exp = w.expected(m)
    if m["form"] == "sfile":
        try:
            ps = T.parse_sfile(raw)
        except ValueError as e:
            run.fail(oid, dict(feats, what="layout"), "bytes of %s: %s" % (p, e))
            return
        if ps["size"] != n:
            run.fail(oid, dict(feats, what="SIZE"), "stored SIZE is %d, %d rows were written to %s" % (ps["size"], n, p))
            return
        try:
            hd = T.eval_header(ps["hdrtext"])
        except Exception as e:
            hd = None
            if w.prop in ("C01", "C04"):
                run.fail(oid, dict(feats, what="header-text"), "header text of %s is not a literal dict: %r" % (p, e))
                return
        if hd is not None and w.prop in ("C01", "C03", "C04"):
            user = m["hdr"] or {}
            for k, v in user.items():
                if isinstance(k, str) and k.startswith("_"):
                    continue
                if k not in hd or not T.header_equal(hd[k], v):
                    run.fail(oid, dict(feats, what="header-user"), "header stored in %s lost or changed user key %r (%r -> %r)" % (p, k, v, hd.get(k)))
                    return
            # the stored dtype description must be the written table's, whatever the caller's dict said about it
            try:
                dts = np.dtype(hd["_DTYPE"]) if not isinstance(hd.get("_DTYPE"), str) else np.dtype(hd["_DTYPE"])
                want = m["dtype"] if m["delim"] is None else T.to_native(np.zeros(0, m["dtype"])).dtype
                if m["delim"] is not None:
                    dts = T.to_native(np.zeros(0, dts)).dtype
                bad = T.descr_of(dts) != T.descr_of(want)
            except Exception:
                bad = True
            if bad:
                run.fail(oid, dict(feats, what="header-_DTYPE"), "the _DTYPE stored in %s is %r; the table written has %r"
                         % (p, hd.get("_DTYPE"), T.descr_of(m["dtype"])))
                return
        data = ps["data"]
        m["data_start"] = ps["data_start"]
    else:
        data = raw
        m["data_start"] = 0
    if m["delim"] is None:
        want = np.ascontiguousarray(exp).tobytes()
        if data != want:
            if len(data) != len(want):
                run.fail(oid, dict(feats, what="data-length"), "%s holds %d data bytes, %d rows x %d bytes = %d expected"
                         % (p, len(data), n, exp.dtype.itemsize, len(want)))
            else:
                a = np.frombuffer(data, "u1")
                b = np.frombuffer(want, "u1")
                first = int(np.nonzero(a != b)[0][0])
                run.fail(oid, dict(feats, what="data-bytes"), "data bytes of %s differ from the written rows (first at byte %d = row %d)"
                         % (p, first, first // exp.dtype.itemsize))
    else:
        nl = data.count(b"\n")
        if w.prop == "C04" or w.cfg.get("tokenise"):
            try:
                tab = T.parse_text_rows(data, exp.dtype, m["delim"], n)
            except ValueError as e:
                run.fail(oid, dict(feats, what="text-layout"), "text of %s: %s" % (p, e))
                return
            d = T.text_table_diff(tab, exp)
            if d:
                run.fail(oid, dict(feats, what="text-values"), "independent tokenisation of %s differs from the written table: %s" % (p, d))
        elif nl != n:
            run.fail(oid, dict(feats, what="text-lines"), "%s holds %d lines of data, %d rows were written" % (p, nl, n))


# =========================================================================== execute

def execute(script, run, env):
    from esutil import sfile, recfile, io as eio
    root = env.disk()
    w = World(root, run, script)
    mods = {"sfile": sfile, "recfile": recfile, "io": eio}
    saved_env = {k: os.environ.get(k) for k in ("ESUTIL_SIMDISK", "HOME")}
    saved_cwd = os.getcwd()
    if w.cfg.get("pathform", "abs") != "abs":
        os.environ["ESUTIL_SIMDISK"] = root
        os.environ["HOME"] = root
        if w.cfg["pathform"] == "mixed":
            os.chdir(root)
        run.fault("file_names_expanded_by_esutil_" + w.cfg["pathform"])
    ncallers = len(set(op.get("c", 0) for op in script["ops"]))
    prev_c = None
    try:
        for i, op in enumerate(script["ops"]):
            run.step = i
            c = op.get("c", 0)
            if prev_c is not None and c != prev_c and ncallers > 1:
                run.fault("interleaved_callers")
            prev_c = c
            w.cur = c
            if w.held.items:
                w.held.settle(run, "rec.result_overwritten", {"after": script["ops"][i - 1]["k"] if i else ""})
                if run.failures and not script.get("keep_going"):
                    break
            if w.workbufs:
                if scribble(w.workbufs):
                    run.fault("caller_refilled_its_work_buffer_after_a_write")
                del w.workbufs[:]
            if w.renamebufs:
                for b in w.renamebufs:
                    try:
                        b.dtype.names = tuple("%s_r%d" % (nm, j) for j, nm in enumerate(b.dtype.names))
                        run.fault("caller_renamed_the_fields_of_its_buffer_in_place")
                    except Exception:
                        pass
                del w.renamebufs[:]
            fn = OPS.get(op["k"])
            if fn is None:
                run.event(c, op["k"], "", "unknown-op")
                continue
            try:
                fn(w, op, mods)
            except Skip as s:
                run.event(c, op["k"], op.get("p", op.get("h", "")), "skipped(%s)" % s)
            if run.failures and not script.get("keep_going"):
                break
    finally:
        for h in list(w.handles.values()) + [{"obj": o} for o in w.reused.values()]:
            try:
                h["obj"].close()
            except Exception:
                pass
        for k, v in saved_env.items():
            if v is None:
                os.environ.pop(k, None)
            else:
                os.environ[k] = v
        try:
            os.chdir(saved_cwd)
        except OSError:
            pass
    if run.faults:
        run.nontrivial = True


class Skip(Exception):
    pass


def _forget(w, p):
    """after a failed mutation nothing is known about the path any more"""
    if os.path.exists(w.path(p)):
        w.files[p] = None
    else:
        w.files.pop(p, None)


def _need_file(w, p):
    m = w.files.get(p)
    if m is None:
        raise Skip("no usable file")
    return m


def _outcome(e):
    return "rejected(%s)" % type(e).__name__


# ------------------------------------------------------------------ environment ops

def op_stale(w, op, mods):
    p = op["p"]
    if p in w.files and w.files[p] is not None and w.files[p].get("writers", 0) > 0:
        raise Skip("writer open")
    g = np.random.Generator(np.random.PCG64(op.get("seed", 1)))
    what = op["what"]
    n = op.get("n", 100)
    if what == "garbage":
        data = g.integers(0, 256, n, dtype="u1").tobytes()
    elif what == "fakehdr":
        data = b"SIZE = %20d\n{'_DTYPE': [('zz', '<i8')], '_VERSION': '1.0'}\nEND\n\n" % 999 + b"\x01" * n
    else:
        data = b"0123456789\n" * n
    with open(w.path(p), "wb") as fh:
        fh.write(data)
    w.files[p] = None
    w.run.event(op.get("c", 0), "stale", p, "ok", what)
    w.run._stale = getattr(w.run, "_stale", set()) | {p}


# ------------------------------------------------------------------ create

def _do_create(w, op, mods, tab, hdr):
    sfile, recfile, eio = mods["sfile"], mods["recfile"], mods["io"]
    path = w.epath(op["p"])
    delim = op.get("delim")
    e = op["entry"]
    kw = {}
    if delim is not None:
        kw["delim"] = delim
    if w.prop == "C15" and op.get("wopts"):
        kw.update(op["wopts"])
        w.run.fault("writer_option_" + "+".join(sorted(op["wopts"])))
    if e == "sfile.write":
        sfile.write(path, tab, header=hdr, **kw)
    elif e == "sfile.write_swapped":
        sfile.write(tab, path, header=hdr, **kw)
    elif e == "SFile.ctx":
        with sfile.SFile(path, "w", **kw) as sf:
            sf.write(tab, header=hdr)
    elif e == "io.write":
        eio.write(path, tab, header=hdr, **kw)
    elif e == "recfile.write":
        recfile.write(path, tab, **kw)
    elif e == "Recfile.ctx":
        with recfile.Recfile(path, "w", **kw) as rf:
            rf.write(tab)
    elif e == "recfile.Open":
        rf = recfile.Open(path, "w", **kw)
        rf.write(tab)
        rf.close()
    elif e == "SFile.reused":
        sf = w.reuse("SFile", mods, path, "w", **kw)
        sf.write(tab, header=hdr)
        w.release(sf, force=True)
    elif e == "Recfile.reused":
        rf = w.reuse("Recfile", mods, path, "w", **kw)
        rf.write(tab)
        w.release(rf, force=True)
    else:
        raise Skip("unknown entry %s" % e)


def op_create(w, op, mods):
    run = w.run
    p = op["p"]
    old = w.files.get(p)
    if old is not None and old.get("writers", 0) > 0:
        raise Skip("writer open")
    for h in w.handles.values():
        if h["path"] == p:
            raise Skip("handle open on path")
    form = op["form"]
    delim = op.get("delim")
    tab = w.table(op["tab"], "txt" if delim else "bin", delim)
    hdr = op.get("hdr") if form == "sfile" else None
    src = op.get("hdr_from")
    if src is not None and form == "sfile":
        # history: the header dict handed to this write was READ from an earlier file (so it carries that
        # file's reserved entries: _DTYPE, _SIZE, _DELIM, _VERSION ...) and extended with the user's keys
        ms = w.files.get(src)
        if ms is not None and ms["form"] == "sfile" and ms.get("writers", 0) == 0 and os.path.exists(w.path(src)):
            try:
                base = mods["sfile"].read_header(w.epath(src))
            except Exception:
                base = None
            if isinstance(base, dict):
                merged = dict(base)
                merged.update(hdr or {})
                hdr = merged
                run.fault("header_dict_read_from_an_earlier_file")
    if op.get("hdr_big") and form == "sfile":
        # a processing history kept in the header: more than a megabyte of header text
        hdr = dict(hdr or {})
        hdr["history"] = ["calibrated frame %06d with flat %06d" % (i, i * 7) for i in range(int(op["hdr_big"]))]
        run.fault("header_text_longer_than_a_megabyte")
    al = op.get("hdr_align")
    if al and form == "sfile":
        # find the pad length that puts the END line where it is wanted: write once with a short pad to a side file,
        # measure, then the real write uses the adjusted pad (a string without blanks stays on one line)
        try:
            probe = dict(hdr or {})
            probe["zz_pad"] = "x" * 10
            side = w.path("align_probe.rec")
            mods["sfile"].write(side, tab[:1], header=probe, **({"delim": delim} if delim else {}))
            raw = open(side, "rb").read()
            os.unlink(side)
            e0 = raw.index(b"\nEND\n") + 1
            target = al["block"] * al.get("mult", 1) - al.get("back", 0)
            # the SIZE line has a fixed width, so the header of the real table has the same length as the probe's
            need = (target - e0) % al["block"]
            if e0 + need < target:
                need = target - e0
            hdr = dict(hdr or {})
            hdr["zz_pad"] = "x" * (10 + need)
            run.fault("header_end_aligned_to_a_block_boundary")
        except Exception:
            pass
    existed = os.path.exists(w.path(p))
    old_stat = os.stat(w.path(p)) if existed else None
    if existed:
        if old is None:
            run.fault("create_over_stale_bytes")
        else:
            run.fault("overwrite")
            if (old["delim"] is None) != (delim is None):
                run.fault("path_held_other_form")
            if os.path.getsize(w.path(p)) > tab.nbytes + 2000:
                run.fault("overwrite_of_longer_file")
    if tab.nbytes > 70000:
        run.fault("table_larger_than_stdio_buffer")
    guard = None
    arg = _handed(w, op, tab)
    if w.prop == "C15":
        arg, guard = present.make(tab, op.get("present"))
    m = {"form": form, "delim": delim, "dtype": tab.dtype, "hdr": hdr if form == "sfile" else None,
         "chunks": [tab], "writers": 0, "stale": existed and old is None}
    feats = _feat(m, entry=op["entry"])
    st = _fstate(old) if existed else "absent"
    try:
        _do_create(w, op, mods, arg, hdr)
    except Skip:
        raise
    except Exception as e:
        _forget(w, p)
        run.event(op.get("c", 0), "create", p, "error(%s)" % type(e).__name__)
        run.trans.add("%s|create|%s|error" % (st, op["entry"]))
        if guard is not None:
            # a rejected write must leave the caller's table alone as well
            run.checks += 1
            run.fault("write_rejected_with_guarded_table")
            bad = present.changed(guard, run)
            if bad:
                run.fail("own.rec.write", {"entry": op["entry"], "text": bool(delim), "present": guard["kind"], "outcome": "rejected"},
                         "%s (%s) raised %r and left the caller's table modified (%s): %s"
                         % (op["entry"], "text" if delim else "binary", e, guard["kind"], bad))
        if w.prop in ("C01", "C03", "C04"):
            run.fail("rec.create.raises", feats, "%s(%s, table %s x %d rows, header=%r, delim=%r) raised %r"
                     % (op["entry"], p, T.descr_of(tab.dtype), tab.shape[0], hdr, delim, e))
        return
    if op.get("same_tick") and old_stat is not None:
        # coarse file time stamps (or a restore that keeps them): the replacement carries the time stamp of the file it
        # replaced -- and, being the same columns in another order, it has the same size
        try:
            os.utime(w.path(p), ns=(old_stat.st_atime_ns, old_stat.st_mtime_ns))
            if os.path.getsize(w.path(p)) == old_stat.st_size:
                run.fault("replacement_with_same_size_and_time_stamp")
        except OSError:
            pass
    w.files[p] = m
    run.states.add(_fstate(m))
    run.trans.add("%s|create|%s|ok" % (st, op["entry"]))
    run.event(op.get("c", 0), "create", p, "ok", "%s:%d" % (op["entry"], tab.shape[0]))
    if guard is not None:
        run.checks += 1
        bad = present.changed(guard, run)
        if bad:
            run.fail("own.rec.write", {"entry": op["entry"], "text": bool(delim), "present": guard["kind"]},
                     "%s (%s) modified the caller's table (%s): %s" % (op["entry"], "text" if delim else "binary", guard["kind"], bad))
        return
    if w.prop in ("C01", "C03", "C04"):
        check_durable(w, p, "rec.durable")
    else:
        _learn_offset(w, p)


def _learn_offset(w, p):
    m = w.files.get(p)
    if m is None:
        return
    if m["form"] == "sfile":
        try:
            m["data_start"] = T.parse_sfile(w.raw(p))["data_start"]
        except ValueError:
            m["data_start"] = None
    else:
        m["data_start"] = 0


# ------------------------------------------------------------------ full reads through entry points

def _full_read(w, m, p, entry, mods):
    """returns (table, header or None)"""
    sfile, recfile, eio = mods["sfile"], mods["recfile"], mods["io"]
    path = w.epath(p)
    delim = m["delim"]
    n = w.nrows(m)
    dkw = {"delim": delim} if delim is not None else {}
    if m["form"] == "sfile":
        if entry == "sfile.read":
            return sfile.read(path), None
        if entry == "sfile.read_hdr":
            d, h = sfile.read(path, header=True)
            return d, h
        if entry == "SFile.read":
            with sfile.SFile(path) as sf:
                return sf.read(), sf.get_header()
        if entry == "SFile.getitem":
            with sfile.SFile(path) as sf:
                return sf[:], None
        if entry == "SFile.printed":
            # the class docstring's own example: look at the object first (print(sf)), then read
            with sfile.SFile(path) as sf:
                repr(sf)
                str(sf)
                return sf.read(header=True)
        if entry == "SFile.nocontext":
            sf = sfile.SFile(path, "r")
            try:
                return sf.read(header=True)
            finally:
                sf.close()
        if entry == "SFile.reused":
            sf = w.reuse("SFile", mods, path, "r")
            try:
                return sf.read(), sf.get_header()
            finally:
                w.release(sf)
        if entry == "io.read":
            return eio.read(path), None
        if entry == "io.read_hdr":
            d, h = eio.read(path, header=True)
            return d, h
        off = m.get("data_start")
        if off is None:
            raise Skip("offset unknown")
        if entry == "Recfile.offset":
            with recfile.Recfile(path, dtype=m["dtype"], offset=off, nrows=n, **dkw) as rf:
                return rf.read(), None
        if entry == "Recfile.offset_count":
            with recfile.Recfile(path, dtype=m["dtype"], offset=off, **dkw) as rf:
                return rf[:], None
        if entry == "Recfile.reused.offset":
            rf = w.reuse("Recfile", mods, path, "r", dtype=m["dtype"], offset=off, **dkw)
            try:
                return rf.read(), None
            finally:
                w.release(rf)
        if entry == "recfile.read.offset":
            return recfile.read(path, m["dtype"], offset=off, nrows=n, **dkw), None
        if entry == "io.read_dtype_offset":
            return eio.read(path, dtype=m["dtype"], offset=off, nrows=n, **dkw), None
    else:
        if entry == "recfile.read":
            return recfile.read(path, m["dtype"], **dkw), None
        if entry == "recfile.read_nrows":
            return recfile.read(path, m["dtype"], nrows=n, **dkw), None
        if entry == "Recfile.read":
            with recfile.Recfile(path, dtype=m["dtype"], **dkw) as rf:
                return rf.read(), None
        if entry == "Recfile.getitem":
            with recfile.Recfile(path, dtype=m["dtype"], nrows=n, **dkw) as rf:
                return rf[:], None
        if entry == "Recfile.descr":
            with recfile.Recfile(path, "r", dtype=m["dtype"].descr, **dkw) as rf:
                return rf.read(), None
        if entry == "Recfile.reused":
            rf = w.reuse("Recfile", mods, path, "r", dtype=m["dtype"], **dkw)
            try:
                return rf.read(), None
            finally:
                w.release(rf)
        if entry == "io.read_dtype":
            return eio.read(path, dtype=m["dtype"], **dkw), None
    raise Skip("entry %s does not apply" % entry)


def op_read(w, op, mods):
    """full read through a convenience entry point, judged against the model (C01/C03/C04)."""
    run = w.run
    p = op["p"]
    m = _need_file(w, p)
    if m.get("writers", 0) > 0:
        run.fault("read_while_writer_open_unjudged")
        raise Skip("writer open")
    entry = op["entry"]
    feats = _feat(m, entry=entry)
    st = _fstate(m)
    try:
        got, hdr = _full_read(w, m, p, entry, mods)
    except Skip:
        raise
    except Exception as e:
        run.event(op.get("c", 0), "read", p, "error(%s)" % type(e).__name__, entry)
        run.trans.add("%s|read|%s|error" % (st, entry))
        if w.prop in ("C01", "C03", "C04"):
            run.fail("rec.read.raises", feats, "%s on %s (%d rows, %s) raised %r" % (entry, p, w.nrows(m), T.descr_of(m["dtype"]), e))
        return
    run.trans.add("%s|read|%s|ok" % (st, entry))
    run.event(op.get("c", 0), "read", p, "ok", entry + ":" + adigest(got))
    if w.prop in ("C01", "C03", "C04"):
        run.checks += 1
        d = table_diff(w, m, got)
        if d:
            run.fail("rec.read.table", feats, "%s on %s differs from what was written (%d chunks): %s" % (entry, p, len(m["chunks"]), d))
            return
        if hdr is not None:
            check_header(w, m, hdr, "rec.read.header", feats)
    if hdr is not None:
        _scribble(w, hdr)
    w.held.hold(got)


def op_header(w, op, mods):
    run = w.run
    p = op["p"]
    m = _need_file(w, p)
    if m["form"] != "sfile":
        raise Skip("raw file")
    if m.get("writers", 0) > 0:
        raise Skip("writer open")
    sfile, eio = mods["sfile"], mods["io"]
    entry = op["entry"]
    feats = _feat(m, entry=entry)
    try:
        if entry == "sfile.read_header":
            hdr = sfile.read_header(w.epath(p))
        elif entry == "io.read_header":
            hdr = eio.read_header(w.epath(p))
        elif entry == "io.read_header_only":
            hdr = eio.read(w.epath(p), header="only")
        else:
            with sfile.SFile(w.epath(p)) as sf:
                hdr = sf.read_header()
    except Exception as e:
        run.event(op.get("c", 0), "header", p, "error(%s)" % type(e).__name__, entry)
        if w.prop in ("C01", "C03", "C04"):
            run.fail("rec.header.raises", feats, "%s on %s raised %r (user header %r, fields %r)" % (entry, p, e, m["hdr"], list(m["dtype"].names)))
        return
    run.event(op.get("c", 0), "header", p, "ok", entry)
    if w.prop in ("C01", "C03", "C04"):
        check_header(w, m, hdr, "rec.header", feats)
    _scribble(w, hdr)


# ------------------------------------------------------------------ writer handles (C03)

def op_open_w(w, op, mods):
    run = w.run
    sfile, recfile = mods["sfile"], mods["recfile"]
    p, hname = op["p"], op["h"]
    if hname in w.handles:
        raise Skip("handle exists")
    for h in w.handles.values():
        if h["path"] == p:
            raise Skip("another handle open on path")
    kind, mode = op["kind"], op["mode"]
    m = w.files.get(p)
    exists = os.path.exists(w.path(p))
    delim = op.get("delim")
    kw = {"delim": delim} if delim is not None else {}
    if mode == "r+":
        if exists and m is None:
            raise Skip("unusable file")
        if m is not None:
            if (kind == "SFile") != (m["form"] == "sfile"):
                raise Skip("form mismatch")
            delim = m["delim"]
            kw = {"delim": delim} if (delim is not None and kind == "Recfile") else {}
            if kind == "SFile" and exists and "kwdelim" in op and op["kwdelim"] != delim:
                kw = {"delim": op["kwdelim"]} if op["kwdelim"] is not None else {}
                run.fault("append_with_other_delim_keyword")
        if kind == "Recfile":
            if m is None:
                raise Skip("Recfile r+ needs an existing file")
            kw.update({"dtype": m["dtype"]})
            if op.get("nrows") == "given":
                kw["nrows"] = w.nrows(m)
    if w.prop == "C15" and op.get("wopts"):
        kw.update(op["wopts"])
        run.fault("writer_option_" + "+".join(sorted(op["wopts"])))
    st = _fstate(m) if exists else "absent"
    try:
        if kind == "SFile":
            obj = sfile.SFile(w.epath(p), mode, **kw)
        else:
            obj = recfile.Recfile(w.epath(p), mode, **kw)
    except Exception as e:
        run.event(op.get("c", 0), "open_w", p, "error(%s)" % type(e).__name__, "%s:%s" % (kind, mode))
        run.trans.add("%s|open_w|%s:%s|error" % (st, kind, mode))
        if w.prop in ("C01", "C03", "C04"):
            run.fail("rec.open_w.raises", _feat(m, kind=kind, mode=mode, exists=exists),
                     "%s(%s, %r) raised %r (file %s)" % (kind, p, mode, e, "exists" if exists else "does not exist"))
        return
    if mode == "w":
        m = {"form": "sfile" if kind == "SFile" else "raw", "delim": delim, "dtype": None, "hdr": None,
             "chunks": [], "writers": 1, "pending": True}
        w.files[p] = m
    else:
        if m is None:
            run.fault("append_to_missing_file")
            m = {"form": "sfile", "delim": delim, "dtype": None, "hdr": None, "chunks": [], "writers": 1,
                 "pending": True}
            w.files[p] = m
        else:
            m["writers"] = m.get("writers", 0) + 1
            run.fault("reopen_for_append")
    w.handles[hname] = {"kind": kind, "mode": mode, "path": p, "obj": obj, "role": "w", "writes": 0,
                        "last": "open", "created": not exists}
    run.trans.add("%s|open_w|%s:%s|ok" % (st, kind, mode))
    run.event(op.get("c", 0), "open_w", p, "ok", "%s:%s" % (kind, mode))


def _compatible(m, tab):
    if m["dtype"] is None:
        return True
    if m["delim"] is None:
        return T.descr_of(m["dtype"]) == T.descr_of(tab.dtype)
    a = [(n, t[1:], s) for n, t, s in T.descr_of(m["dtype"])]
    b = [(n, t[1:], s) for n, t, s in T.descr_of(tab.dtype)]
    return a == b


def op_write(w, op, mods):
    """write a further chunk through an open writer handle (compatible or not)."""
    run = w.run
    h = w.handles.get(op["h"])
    if h is None or h["role"] != "w":
        raise Skip("no such writer")
    p = h["path"]
    m = w.files[p]
    if m is None:
        raise Skip("nothing is known about the file any more")
    delim = m["delim"]
    tab = w.table(op["tab"], "txt" if delim else "bin", delim)
    ok_expected = _compatible(m, tab)
    if h["kind"] == "Recfile" and not ok_expected:
        raise Skip("raw files carry no dtype to be incompatible with")
    before = w.raw(p) if not ok_expected else None
    feats = _feat(m, kind=h["kind"], mode=h["mode"], via="handle")
    st = _fstate(m) + "|h=%s:%s:%s" % (h["kind"], h["mode"], h["last"])
    hdr = op.get("hdr")
    arg, guard = _handed(w, op, tab), None
    if w.prop == "C15":
        arg, guard = present.make(tab, op.get("present"))
    if op.get("badhdr") and h["kind"] == "SFile" and ok_expected and tab.shape[0] > 0 and m.get("pending") and h["writes"] == 0:
        # (only the FIRST write of a new file looks at header=; later writes ignore it)
        # the caller first passes a header= argument that cannot be used (a list of pairs instead of a dict, a dict
        # holding something that cannot be copied) -- rejected -- and then repeats the write correctly
        bad = [("date", "2007"), ("n", 3)] if op["badhdr"] == "pairs" else {"date": "2007", "gen": (x for x in ())}
        arg_bad = arg
        if op.get("badhdr_other") and isinstance(arg, np.ndarray) and arg.dtype.names:
            # ... and the table offered first differs from the one written afterwards (the same rows in the other byte order)
            arg_bad = arg.byteswap().view(arg.dtype.newbyteorder())
        try:
            h["obj"].write(arg_bad, header=bad)
            refused = False
        except Exception:
            refused = True
        if not refused:
            w.files[p] = None
            run.event(op.get("c", 0), "write_badhdr", p, "accepted")
            raise Skip("the unusable header argument was accepted: nothing is known about the file any more")
        run.fault("write_rejected_for_its_header_argument_then_repeated")
        run.event(op.get("c", 0), "write_badhdr", p, "rejected")
    try:
        if h["kind"] == "SFile":
            h["obj"].write(arg, header=hdr)
        else:
            h["obj"].write(arg)
        err = None
    except Exception as e:
        err = e
    if guard is not None:
        run.checks += 1
        if err is not None:
            run.fault("write_rejected_with_guarded_table")
        bad = present.changed(guard, run)
        if bad:
            run.fail("own.rec.write", {"entry": h["kind"] + ".write", "text": bool(delim), "present": guard["kind"],
                                       "outcome": "ok" if err is None else "rejected"},
                     "%s.write (%s)%s modified the caller's table (%s): %s"
                     % (h["kind"], "text" if delim else "binary", "" if err is None else " raised %r and" % (err,), guard["kind"], bad))
    if tab.shape[0] == 0:
        # an EMPTY chunk (an empty selection while a catalogue is appended in pieces): outside the quantifier
        # ("chunk sizes >= 1"), so accepting or rejecting it is free -- but the file and the handle's later
        # behaviour must not change
        run.fault("empty_chunk_written_through_a_handle")
        h["last"] = "ok" if err is None else "rejected"
        run.event(op.get("c", 0), "write_empty", p, "ok" if err is None else "rejected")
        if err is None and m["dtype"] is None:
            # a brand-new file that received only an empty chunk: nothing judged can be said about it
            w.files[p] = None
        return
    if ok_expected:
        if err is not None:
            h["last"] = "error"
            run.event(op.get("c", 0), "write", p, "error(%s)" % type(err).__name__)
            run.trans.add(st + "|write|error")
            if w.prop in ("C01", "C03", "C04"):
                run.fail("rec.write.raises", feats, "%s(%r).write of a compatible chunk #%d (%d rows) raised %r"
                         % (h["kind"], h["mode"], len(m["chunks"]) + 1, tab.shape[0], err))
            w.files[p] = None
            return
        if m["dtype"] is None:
            m["dtype"] = tab.dtype
            m["hdr"] = hdr if m["form"] == "sfile" else None
            m.pop("pending", None)
        elif h["writes"] >= 1:
            run.fault("several_writes_on_one_handle")
        m["chunks"].append(tab)
        h["writes"] += 1
        h["last"] = "ok"
        run.states.add(_fstate(m))
        run.trans.add(st + "|write|ok")
        run.event(op.get("c", 0), "write", p, "ok", "%d" % tab.shape[0])
    else:
        run.fault("incompatible_append")
        h["last"] = "rejected" if err is not None else "accepted"
        run.trans.add(st + "|write_bad|" + h["last"])
        run.event(op.get("c", 0), "write_bad", p, _outcome(err) if err is not None else "accepted")
        if w.prop == "C03":
            run.checks += 1
            f2 = dict(feats, bad=op.get("bad", "?"))
            if err is None:
                run.fail("rec.append_bad.accepted", f2, "%s(%r).write accepted a chunk with fields %r on a file with fields %r"
                         % (h["kind"], h["mode"], T.descr_of(tab.dtype), T.descr_of(m["dtype"])))
                w.files[p] = None
                return
            # the bytes are judged after close: the model holds only the accepted chunks


def op_write_ro(w, op, mods):
    """C15: a write attempted through an object opened in mode 'r' (rejected); the caller's table is watched."""
    run = w.run
    p = op["p"]
    m = _need_file(w, p)
    if m.get("writers", 0) > 0:
        raise Skip("writer open")
    delim = m["delim"]
    tab = w.table(op["tab"], "txt" if delim else "bin", delim)
    arg, guard = present.make(tab, op.get("present"))
    kind = "SFile" if m["form"] == "sfile" else "Recfile"
    try:
        if kind == "SFile":
            obj = mods["sfile"].SFile(w.epath(p), "r")
        else:
            obj = mods["recfile"].Recfile(w.epath(p), "r", dtype=m["dtype"], **({"delim": delim} if delim else {}))
    except Exception as e:
        raise Skip("cannot open: %s" % type(e).__name__)      # (the text of the exception may quote bytes of the file)
    err = None
    before = w.raw(p)
    try:
        try:
            if kind == "SFile":
                obj.write(arg)
            else:
                obj.write(arg)
        except Exception as e:
            err = e
    finally:
        try:
            obj.close()
        except Exception:
            pass
    run.event(op.get("c", 0), "write_ro", p, "rejected" if err is not None else "accepted")
    run.checks += 1
    run.fault("write_through_read_only_object")
    bad = present.changed(guard, run)
    if bad:
        run.fail("own.rec.write", {"entry": kind + "(r).write", "text": bool(delim), "present": guard["kind"],
                                   "outcome": "ok" if err is None else "rejected"},
                 "%s opened with mode 'r': write (%s)%s modified the caller's table (%s): %s"
                 % (kind, "text" if delim else "binary", "" if err is None else " raised %r and" % (err,), guard["kind"], bad))
    if err is None and w.raw(p) != before:
        # the file changed under a read-only object: the model no longer describes it
        _forget(w, p)


def op_close(w, op, mods):
    run = w.run
    h = w.handles.get(op["h"])
    if h is None:
        raise Skip("no such handle")
    p = h["path"]
    dropped = False
    if op.get("drop") and h["role"] == "w":
        # the caller never calls close(): the last reference to the object goes away (function returns, `del sf`)
        ref = weakref.ref(h["obj"])
        h["obj"] = None
        gc.collect()
        if ref() is None:
            dropped = True
            run.fault("writer_dropped_without_close")
        else:
            h["obj"] = ref()        # something else still refers to it: close it the ordinary way
    if not dropped:
        try:
            h["obj"].close()
        except Exception as e:
            if w.prop in ("C03",):
                run.fail("rec.close.raises", {"kind": h["kind"], "mode": h["mode"]}, "close raised %r" % (e,))
    del w.handles[op["h"]]
    run.event(op.get("c", 0), "close", p, "dropped" if dropped else "ok")
    if h["role"] == "w":
        m = w.files.get(p)
        if m is not None:
            m["writers"] = max(0, m.get("writers", 1) - 1)
            if m.get("pending"):
                # opened for writing, closed without a write: nothing usable at the path
                _forget(w, p)
                return
            run.fault("close_after_writes")
            if w.prop in ("C03", "C04"):
                check_durable(w, p, "rec.durable")


def op_append(w, op, mods):
    """append by reopening: sfile.write(append=True) / io.write(append=True) / SFile r+ ctx /
    Recfile r+ ctx.  The path may not exist yet."""
    run = w.run
    sfile, recfile, eio = mods["sfile"], mods["recfile"], mods["io"]
    p = op["p"]
    for h in w.handles.values():
        if h["path"] == p:
            raise Skip("handle open on path")
    exists = os.path.exists(w.path(p))
    m = w.files.get(p)
    if exists and m is None:
        raise Skip("unusable file")
    entry = op["entry"]
    if m is not None:
        if (entry.startswith("Recfile") or entry.startswith("recfile")) != (m["form"] == "raw"):
            raise Skip("form mismatch")
        delim = m["delim"]
    else:
        if entry.startswith("Recfile") or entry.startswith("recfile"):
            raise Skip("raw append needs an existing file")
        delim = op.get("delim")
    tab = w.table(op["tab"], "txt" if delim else "bin", delim)
    compatible = True if m is None else _compatible(m, tab)
    if not compatible and m["form"] == "raw":
        raise Skip("raw files carry no dtype")
    hdr = op.get("hdr")
    before = w.raw(p) if exists else None
    path = w.epath(p)
    dkw = {"delim": delim} if delim is not None else {}
    if "kwdelim" in op and m is not None and exists and m["form"] == "sfile" and op["kwdelim"] != delim:
        # the file exists: the delim= keyword is documented as ignored, the form comes from the file's header
        dkw = {"delim": op["kwdelim"]} if op["kwdelim"] is not None else {}
        run.fault("append_with_other_delim_keyword")
    if w.prop == "C15" and op.get("wopts"):
        dkw.update(op["wopts"])
        run.fault("writer_option_" + "+".join(sorted(op["wopts"])))
    feats = _feat(m, entry=entry, exists=exists) if m else {"form": "none", "text": bool(delim), "entry": entry, "exists": False}
    st = _fstate(m) if exists else "absent"
    arg, guard = _handed(w, op, tab), None
    if w.prop == "C15":
        arg, guard = present.make(tab, op.get("present"))
    try:
        if entry == "sfile.write.append":
            sfile.write(path, arg, append=True, header=hdr, **dkw)
        elif entry == "io.write.append":
            eio.write(path, arg, append=True, header=hdr, **dkw)
        elif entry == "SFile.r+":
            with sfile.SFile(path, "r+", **dkw) as sf:
                sf.write(arg, header=hdr)
        elif entry == "Recfile.r+":
            with recfile.Recfile(path, "r+", dtype=m["dtype"], **dkw) as rf:
                rf.write(arg)
        elif entry == "recfile.write.r+":
            recfile.write(path, arg, mode="r+", dtype=m["dtype"], **dkw)
        else:
            raise Skip("unknown entry")
        err = None
    except Skip:
        raise
    except Exception as e:
        err = e
    if guard is not None:
        run.checks += 1
        if err is not None:
            run.fault("write_rejected_with_guarded_table")
        bad = present.changed(guard, run)
        if bad:
            run.fail("own.rec.write", {"entry": entry, "text": bool(delim), "present": guard["kind"],
                                       "outcome": "ok" if err is None else "rejected"},
                     "%s (%s)%s modified the caller's table (%s): %s"
                     % (entry, "text" if delim else "binary", "" if err is None else " raised %r and" % (err,), guard["kind"], bad))
    if compatible:
        if not exists:
            run.fault("append_to_missing_file")
        else:
            run.fault("reopen_for_append")
        if err is not None:
            run.event(op.get("c", 0), "append", p, "error(%s)" % type(err).__name__, entry)
            run.trans.add("%s|append|%s|error" % (st, entry))
            if w.prop in ("C01", "C03", "C04"):
                run.fail("rec.append.raises", feats, "%s of a compatible chunk to %s (%s) raised %r"
                         % (entry, p, "existing, %d rows" % w.nrows(m) if m else "not existing yet", err))
            _forget(w, p)
            return
        if m is None:
            m = {"form": "sfile", "delim": delim, "dtype": tab.dtype, "hdr": hdr, "chunks": [tab], "writers": 0}
            w.files[p] = m
        else:
            m["chunks"].append(tab)
        run.states.add(_fstate(m))
        run.trans.add("%s|append|%s|ok" % (st, entry))
        run.event(op.get("c", 0), "append", p, "ok", "%s:%d" % (entry, tab.shape[0]))
        if w.prop in ("C03", "C04"):
            check_durable(w, p, "rec.durable")
        else:
            _learn_offset(w, p)
    else:
        run.fault("incompatible_append")
        run.trans.add("%s|append_bad|%s|%s" % (st, entry, "rejected" if err is not None else "accepted"))
        run.event(op.get("c", 0), "append_bad", p, _outcome(err) if err is not None else "accepted", entry)
        if w.prop == "C03":
            run.checks += 1
            f2 = dict(feats, bad=op.get("bad", "?"))
            if err is None:
                run.fail("rec.append_bad.accepted", f2, "%s accepted a chunk with fields %r on %s which holds %r"
                         % (entry, T.descr_of(tab.dtype), p, T.descr_of(m["dtype"])))
                w.files[p] = None
                return
            if w.raw(p) != before:
                run.fail("rec.append_bad.bytes", f2, "the rejected incompatible append (%s) changed the bytes of %s" % (entry, p))
                w.files[p] = None


# ------------------------------------------------------------------ reader handles, subset reads (C02)

def op_open_r(w, op, mods):
    run = w.run
    sfile, recfile = mods["sfile"], mods["recfile"]
    p, hname = op["p"], op["h"]
    if hname in w.handles:
        raise Skip("handle exists")
    m = _need_file(w, p)
    if m.get("writers", 0) > 0:
        raise Skip("writer open")
    obj = _open_reader(w, m, p, op, mods)
    w.handles[hname] = {"kind": op["kind"], "mode": "r", "path": p, "obj": obj, "role": "r", "reads": 0,
                        "last": "open"}
    run.event(op.get("c", 0), "open_r", p, "ok", op["kind"])


def _open_reader(w, m, p, op, mods, obj=None):
    sfile, recfile = mods["sfile"], mods["recfile"]
    kind = op["kind"]
    path = w.epath(p)
    dkw = {"delim": m["delim"]} if m["delim"] is not None else {}
    if kind == "SFile":
        if m["form"] != "sfile":
            raise Skip("raw file")
        if obj is not None:
            obj.open(path)
            return obj
        return sfile.SFile(path)
    kw = dict(dkw)
    kw["dtype"] = m["dtype"]
    if m["form"] == "sfile":
        if m.get("data_start") is None:
            _learn_offset(w, p)
        if m.get("data_start") is None:
            raise Skip("offset unknown")
        kw["offset"] = m["data_start"]
        w.run.fault("nonzero_offset")
    if op.get("nrows") == "given":
        kw["nrows"] = w.nrows(m)
    else:
        w.run.probe("nrows_counted")
    if obj is not None:
        obj.open(path, **kw)
        return obj
    return recfile.Recfile(path, **kw)


def op_reopen_obj(w, op, mods):
    run = w.run
    h = w.handles.get(op["h"])
    if h is None or h["role"] != "r":
        raise Skip("no such reader")
    p = op["p"]
    m = _need_file(w, p)
    if m.get("writers", 0) > 0:
        raise Skip("writer open")
    op2 = dict(op, kind=h["kind"])
    try:
        _open_reader(w, m, p, op2, mods, obj=h["obj"])
    except Skip:
        raise
    except Exception as e:
        run.event(op.get("c", 0), "reopen_obj", p, "error(%s)" % type(e).__name__)
        if w.prop in ("C01", "C02", "C04"):
            run.fail("rec.reopen.raises", _feat(m, kind=h["kind"]), "%s.open(%s) on a live object raised %r" % (h["kind"], p, e))
        del w.handles[op["h"]]
        return
    h["path"] = p
    h["last"] = "reopened"
    run.fault("object_reopened_on_other_file")
    run.event(op.get("c", 0), "reopen_obj", p, "ok")


def model_select(full, sel):
    """what indexing the fully-read table gives for a selection.  Returns (kind, value):
    kind 'table' (structured), 'plain' (one column), 'tuple' (split)."""
    rows = sel.get("rows")
    cols = sel.get("cols")
    style = sel.get("style", "read_kw")
    if rows is None:
        r = full
    elif rows["t"] == "scalar":
        i = rows["v"]
        n = full.shape[0]
        if i < 0:
            i += n
        r = full[i:i + 1]
    elif rows["t"] == "list":
        r = full[np.unique(np.array(rows["v"], dtype="i8"))]
    else:
        a, b, c = rows["v"]
        r = full[slice(a, b, c)]
    if cols is None:
        names = list(full.dtype.names)
        one = False
    elif cols["t"] == "name":
        names = [cols["v"]]
        one = True
    else:
        want = set(cols["v"])
        names = [n for n in full.dtype.names if n in want]
        one = False
    if one:
        # a scalar name together with split=True: SFile wraps the plain column in a 1-tuple,
        # Recfile returns it as is; the statement fixes neither, both are accepted
        return ("plain_or_tuple1" if style == "split" else "plain"), np.ascontiguousarray(r[names[0]])
    if len(names) == len(full.dtype.names):
        sub = r
    else:
        dt = np.dtype([(n,) + tuple(x for x in (full.dtype.fields[n][0].subdtype or (full.dtype.fields[n][0],))) for n in names]) \
            if False else _subdtype(full.dtype, names)
        sub = np.zeros(r.shape[0], dtype=dt)
        for n in names:
            sub[n] = r[n]
    if style == "split":
        return "tuple", tuple(np.ascontiguousarray(sub[n]) for n in names)
    if style == "reduce" and len(names) == 1:
        return "plain", np.ascontiguousarray(sub[names[0]])
    return "table", sub


def _subdtype(dt, names):
    lst = []
    for n in names:
        f = dt.fields[n][0]
        if f.subdtype is not None:
            base, shp = f.subdtype
            lst.append((n, base.str, shp))
        else:
            lst.append((n, f.str))
    return np.dtype(lst)


def _rows_arg(rows):
    if rows is None:
        return None
    if rows["t"] == "scalar":
        st = rows.get("st", "py")
        if st != "py":
            info = np.iinfo(st)
            if info.min <= rows["v"] <= info.max:
                return np.dtype(st).type(rows["v"])          # a numpy integer scalar is an integer too
        return rows["v"]
    if rows["t"] == "list":
        c = rows.get("c", "list")
        v = list(rows["v"])
        if c == "tuple":
            return tuple(v)
        if c == "array":
            return np.array(v, dtype=rows.get("dt", "i8"))
        return v
    a, b, c = rows["v"]
    return slice(a, b, c)


def _cols_arg(cols):
    if cols is None:
        return None
    if cols["t"] == "name":
        return cols["v"]
    c = cols.get("c", "list")
    v = list(cols["v"])
    if c == "tuple":
        return tuple(v)
    if c == "array":
        return np.array(v)
    return v


def _slice_rows_for_kw(rows, n):
    """keyword reads take row numbers, not slices: expand a slice the way Python would."""
    a, b, c = rows["v"]
    return list(range(*slice(a, b, c).indices(n)))


def _do_select(w, h, m, sel, mods):
    """perform a selection through handle h (or a convenience reader when h is None)."""
    style = sel.get("style", "read_kw")
    rows, cols = sel.get("rows"), sel.get("cols")
    try:
        ra, ca = _rows_arg(rows), _cols_arg(cols)
    except Exception as e:
        raise HarnessBug("cannot build the selection arguments: %r" % (e,))
    obj = h["obj"] if h is not None else None
    is_sf = h is not None and h["kind"] == "SFile"
    if style in ("read_kw", "read_fields", "split", "reduce"):
        if isinstance(ra, slice):
            raise Skip("keyword reads take row numbers")
        kw = {}
        if ra is not None:
            kw["rows"] = ra
        if ca is not None:
            kw["fields" if style == "read_fields" else "columns"] = ca
        if style == "split":
            kw["split"] = True
        if style == "reduce":
            if not is_sf:
                raise Skip("reduce is an SFile option")
            kw["reduce"] = True
        return obj.read(**kw)
    if style == "getitem_rows":
        if ca is not None:
            raise Skip("rows only")
        if ra is None:
            ra = slice(None)
        return obj[ra]
    if style == "cols_then_rows":
        if ca is None:
            raise Skip("needs columns")
        sub = obj[ca]
        if ra is None:
            return sub[:] if sel.get("all", "slice") == "slice" else sub.read()
        return sub[ra]
    if style == "cols_read_rows":
        if ca is None or isinstance(ra, slice):
            raise Skip("needs columns and row numbers")
        sub = obj[ca]
        return sub.read(rows=ra) if ra is not None else sub.read()
    raise Skip("unknown style %s" % style)


def _conv_select(w, m, p, sel, mods, entry):
    sfile, recfile, eio = mods["sfile"], mods["recfile"], mods["io"]
    rows, cols = sel.get("rows"), sel.get("cols")
    try:
        ra, ca = _rows_arg(rows), _cols_arg(cols)
    except Exception as e:
        raise HarnessBug("cannot build the selection arguments: %r" % (e,))
    if isinstance(ra, slice):
        raise Skip("keyword reads take row numbers")
    kw = {}
    if ra is not None:
        kw["rows"] = ra
    if ca is not None:
        kw["columns"] = ca
    style = sel.get("style", "read_kw")
    path = w.epath(p)
    dkw = {"delim": m["delim"]} if m["delim"] is not None else {}
    if entry == "sfile.read":
        if m["form"] != "sfile":
            raise Skip("raw")
        if style == "split":
            kw["split"] = True
        elif style == "reduce":
            kw["reduce"] = True
        elif style == "read_fields" and ca is not None:
            kw["fields"] = kw.pop("columns")
        return sfile.read(path, **kw)
    if entry == "io.read":
        if m["form"] != "sfile" or style in ("split", "reduce"):
            raise Skip("n/a")
        if style == "read_fields" and ca is not None:
            kw["fields"] = kw.pop("columns")
        return eio.read(path, **kw)
    if entry == "recfile.read":
        if style == "reduce":
            raise Skip("n/a")
        if style == "split":
            kw["split"] = True
        if m["form"] == "sfile":
            if m.get("data_start") is None:
                raise Skip("offset unknown")
            kw["offset"] = m["data_start"]
            kw["nrows"] = w.nrows(m)
        kw.update(dkw)
        return recfile.read(path, m["dtype"], **kw)
    raise Skip("unknown entry")


def result_diff(kind, exp, got):
    if kind == "plain_or_tuple1":
        if isinstance(got, (tuple, list)) and len(got) == 1:
            got = got[0]
        kind = "plain"
    if kind == "plain":
        if isinstance(got, np.ndarray) and got.dtype.names is not None:
            return "expected a plain array of the column, got a structured array %r" % (got.dtype.descr,)
        return T.plain_equal_diff(got, exp)
    if kind == "tuple":
        if not isinstance(got, (tuple, list)):
            return "expected a tuple of column arrays, got %r" % type(got)
        if len(got) != len(exp):
            return "tuple of %d arrays, expected %d" % (len(got), len(exp))
        for i, (g, e) in enumerate(zip(got, exp)):
            d = T.plain_equal_diff(np.ascontiguousarray(g), e)
            if d:
                return "element %d: %s" % (i, d)
        return None
    if got is None:
        return "result is None"
    return T.exact_table_diff(got, exp)


def _sel_feats(m, h, sel, entry=None):
    rows, cols = sel.get("rows"), sel.get("cols")
    f = _feat(m, style=sel.get("style", "read_kw"))
    f["rows"] = "none" if rows is None else rows["t"]
    f["cols"] = "none" if cols is None else cols["t"]
    if h is not None:
        f["kind"] = h["kind"]
    if entry:
        f["entry"] = entry
    if rows is not None and rows["t"] == "slice":
        a, b, c = rows["v"]
        n = None
        f["neg"] = bool((a is not None and a < 0) or (b is not None and b < 0))
    f["path"] = "all-columns" if cols is None else "column-subset"
    return f


def op_hread(w, op, mods):
    """subset read through an open reader handle or a convenience reader (C02)."""
    run = w.run
    sel = op["sel"]
    entry = op.get("entry")
    if entry:
        h = None
        p = op["p"]
    else:
        h = w.handles.get(op["h"])
        if h is None:
            raise Skip("no such handle")
        p = h["path"]
    m = _need_file(w, p)
    if m.get("writers", 0) > 0 and (h is None or h["role"] != "w"):
        raise Skip("writer open")
    if w.prop == "C02":
        full = m.get("full")        # C02 files never change once they are stored
        if full is None:
            full = m["full"] = _reference_full(w, m, p, mods)
    else:
        full = _reference_full(w, m, p, mods)      # the model as it is NOW (chunks may have been appended)
    if full is None:
        raise Skip("full read unavailable")
    n = full.shape[0]
    rows = sel.get("rows")
    if rows is not None and rows["t"] == "scalar" and not (-n <= rows["v"] < n):
        raise Skip("scalar row outside [-n, n)")
    if rows is not None and rows["t"] == "list" and (len(rows["v"]) == 0 or min(rows["v"]) < 0 or max(rows["v"]) >= n):
        raise Skip("row list outside [0, n)")
    cols = sel.get("cols")
    if cols is not None:
        want = [cols["v"]] if cols["t"] == "name" else cols["v"]
        if not want or any(c not in full.dtype.names for c in want):
            raise Skip("unknown column")
    kind, exp = model_select(full, sel)
    feats = _sel_feats(m, h, sel, entry)
    if h is not None:
        if h.get("reads", 0) > 0:
            run.fault("previous_read_on_same_handle")
        if h.get("last") == "rejected":
            run.fault("read_after_rejected_request")
    st = "%s|h=%s|last=%s" % ("txt" if m["delim"] else "bin", h["kind"] if h else entry, h["last"] if h else "conv")
    tr = "%s|rows=%s|cols=%s|style=%s" % (st, feats["rows"], feats["cols"], feats["style"])
    run.states.add(st)
    try:
        got = _do_select(w, h, m, sel, mods) if h is not None else _conv_select(w, m, p, sel, mods, entry)
    except (Skip, HarnessBug):
        raise
    except Exception as e:
        run.trans.add(tr + "|error")
        run.event(op.get("c", 0), "hread", p, "error(%s)" % type(e).__name__, sdigest(sel))
        if h is not None:
            h["last"] = "error"
        if w.prop == "C02":
            run.fail("rec.select.raises", feats, "selection %r through %s on %s (%d rows) raised %r"
                     % (_sel_str(sel), h["kind"] if h else entry, p, n, e))
        elif w.prop in ("C01", "C03", "C04") and h is not None and h.get("role") == "w" and h.get("mode") == "r+" \
                and not h.get("created"):
            # (a handle that CREATED its file is a write-only handle in fact: reading through it is not promised)
            # reading back through the writing (r+) handle is documented usage: it must not raise
            run.fail("rec.readback.raises", _feat(m, kind=h["kind"], mode=h["mode"]),
                     "reading back (%s) through the %s %r handle after %d writes on %s (%d rows) raised %r"
                     % (_sel_str(sel), h["kind"], h["mode"], h.get("writes", 0), p, n, e))
        return
    if h is not None:
        h["reads"] = h.get("reads", 0) + 1
        h["last"] = "ok"
    run.trans.add(tr + "|ok")
    run.event(op.get("c", 0), "hread", p, "ok", sdigest(sel) + ":" + adigest(got if not isinstance(got, list) else tuple(got)))
    if w.prop == "C02":
        run.checks += 1
        if isinstance(got, np.ndarray) and got.ndim == 0 and kind == "table":
            got = got.reshape(1)
        d = result_diff(kind, exp, got)
        if d:
            run.fail("rec.select.value", feats, "selection %r through %s on %s (%d rows x %r): %s"
                     % (_sel_str(sel), h["kind"] if h else entry, p, n, list(full.dtype.names), d))
    elif w.prop in ("C01", "C03", "C04") and sel.get("rows") is not None and sel.get("cols") is None and kind == "table" \
            and h is not None and h.get("role") == "w" and h.get("mode") == "r+" and not h.get("created"):
        # a PARTIAL read-back through the r+ handle: the rows of the model (all chunks, in order) that were asked for
        run.checks += 1
        g = got.reshape(1) if isinstance(got, np.ndarray) and got.ndim == 0 else got
        d = T.exact_table_diff(g, exp) if m["delim"] is None else T.text_table_diff(g, exp)
        if d:
            run.fail("rec.readback.handle", _feat(m, kind=h["kind"], mode=h["mode"], part="rows"),
                     "reading back %s through the %s handle after %d writes: %s" % (_sel_str(sel), h["mode"], h.get("writes", 0), d))
    elif w.prop in ("C01", "C03", "C04") and sel.get("rows") is None and sel.get("cols") is None and kind == "table":
        # read-back through the writing handle itself (r+)
        run.checks += 1
        d = table_diff(w, m, got)
        if d:
            run.fail("rec.readback.handle", _feat(m, kind=h["kind"] if h else entry, mode=h["mode"] if h else ""),
                     "reading back through the %s handle after %d writes: %s" % (h["mode"] if h else "", h.get("writes", 0) if h else 0, d))
    w.held.hold(got)


def _sel_str(sel):
    rows, cols = sel.get("rows"), sel.get("cols")
    r = "all" if rows is None else ("%s" % (rows["v"],) if rows["t"] != "slice" else "slice(%s,%s,%s)" % tuple(rows["v"]))
    c = "all" if cols is None else repr(cols["v"])
    return "rows=%s cols=%s style=%s" % (r, c, sel.get("style", "read_kw"))


def _reference_full(w, m, p, mods):
    """C02's model is 'the fully-read table': one full read through a fresh handle."""
    if w.prop in ("C01", "C03", "C04"):
        return w.expected(m)
    try:
        if m["form"] == "sfile":
            return mods["sfile"].read(w.epath(p))
        dkw = {"delim": m["delim"]} if m["delim"] is not None else {}
        return mods["recfile"].read(w.epath(p), m["dtype"], **dkw)
    except Exception:
        return None


def op_hread_bad(w, op, mods):
    """a row list with an element outside [0, n) must be rejected; the handle stays usable."""
    run = w.run
    h = w.handles.get(op["h"])
    if h is None or h["role"] != "r":
        raise Skip("no such reader")
    p = h["path"]
    m = _need_file(w, p)
    n = w.nrows(m)
    rows = [r if r < 10 ** 6 else n + (r - 10 ** 6) for r in op["rows"]]
    if not any(r >= n for r in rows) or any(r < 0 for r in rows):
        raise Skip("not out of range here")
    style = op.get("style", "read_kw")
    feats = _feat(m, kind=h["kind"], style=style, nlist=1 if len(rows) == 1 else "many")
    arg = rows if op.get("c_", "list") == "list" else np.array(rows, dtype="i8")
    try:
        if style == "read_kw":
            got = h["obj"].read(rows=arg)
        elif style == "getitem_rows":
            got = h["obj"][arg]
        else:
            names = list(m["dtype"].names)[:1]
            got = h["obj"][names][arg]
        err = None
    except Exception as e:
        err = e
    run.fault("out_of_range_row_list")
    h["last"] = "rejected" if err is not None else "accepted"
    run.event(op.get("c", 0), "hread_bad", p, _outcome(err) if err is not None else "accepted")
    if w.prop == "C02":
        run.checks += 1
        if err is None:
            run.fail("rec.select.bad_accepted", feats, "row list %r on a %d-row file was not rejected (returned %d rows)"
                     % (rows, n, len(got) if hasattr(got, "__len__") else -1))


_SPARSE_DT = np.dtype([("id", "<i8"), ("x", "<f8"), ("name", "S8")])


def op_sparse(w, op, mods):
    """C02: selections from a raw binary table of more than 2 GiB.  The file is made sparse by the simulator (known rows
    at known places, holes elsewhere), so the model is exact without reading it: a named row is its known value or
    all zeros."""
    run = w.run
    if w.prop != "C02":
        raise Skip("C02 only")
    dt = _SPARSE_DT
    n = int(op["n"])
    path = w.path(op["p"])
    g = np.random.Generator(np.random.PCG64(op["seed"]))
    known = {}
    try:
        with open(path, "wb") as fh:
            for i in op["known"]:
                if not (0 <= i < n):
                    continue
                row = np.zeros(1, dtype=dt)
                row["id"], row["x"], row["name"] = i + 1, float(g.normal()), ("r%d" % (i % 9999999)).encode()
                known[i] = row[0]
                fh.seek(i * dt.itemsize)
                fh.write(row.tobytes())
            fh.truncate(n * dt.itemsize)
        if os.stat(path).st_blocks * 512 > 64 * 1024 * 1024:
            raise OSError("the scratch file system does not store holes sparsely")
    except OSError as e:
        try:
            os.unlink(path)
        except OSError:
            pass
        raise Skip("no sparse file here: %s" % type(e).__name__)
    run.fault("binary_table_larger_than_2_GiB")
    feats = {"form": "raw", "text": False, "big": True}
    rf = None
    try:
        try:
            rf = mods["recfile"].Recfile(w.epath(op["p"]), dtype=dt, nrows=n)
        except Exception as e:
            run.event(op.get("c", 0), "sparse", op["p"], "error(%s)" % type(e).__name__)
            run.fail("rec.select.raises", feats, "Recfile(%s, dtype, nrows=%d) (%.2f GiB) raised %r" % (op["p"], n, n * 24 / 2.0 ** 30, e))
            return
        for sel in op["sels"]:
            rows = [i for i in sel["rows"] if 0 <= i < n]
            if not rows:
                continue
            cols, style = sel.get("cols"), sel.get("style", "read_kw")
            exp = np.zeros(len(rows), dtype=dt)
            for j, i in enumerate(rows):
                if i in known:
                    exp[j] = known[i]
            what = "rows=%r cols=%r style=%s" % (rows, cols, style)
            try:
                if style == "slice1":
                    # one row at a time by bracket slices (the slice reader)
                    got = np.concatenate([rf[i:i + 1] for i in rows])
                    if cols is not None:
                        got = got[cols] if isinstance(cols, str) else got[list(cols)]
                elif style == "getitem_rows":
                    got = rf[np.array(rows, dtype="i8")]
                    if cols is not None:
                        got = got[cols] if isinstance(cols, str) else got[list(cols)]
                elif style == "cols_then_rows" and cols is not None:
                    got = rf[cols][np.array(rows, dtype="i8")]
                else:
                    got = rf.read(rows=rows, columns=cols) if cols is not None else rf.read(rows=rows)
            except Exception as e:
                run.event(op.get("c", 0), "sparse_read", op["p"], "error(%s)" % type(e).__name__, what)
                run.fail("rec.select.raises", feats, "%s on a %d-row binary table (%.2f GiB) raised %r" % (what, n, n * 24 / 2.0 ** 30, e))
                return
            run.checks += 1
            if cols is None:
                e2 = exp
            elif isinstance(cols, str):
                e2 = exp[cols]
            elif style in ("slice1", "getitem_rows"):
                e2 = exp[list(cols)]            # (the columns were picked from esutil's rows by numpy, in the order asked for)
            else:
                e2 = exp[[c for c in dt.names if c in cols]]        # esutil's column list: file order
            g2 = np.asarray(got)
            run.event(op.get("c", 0), "sparse_read", op["p"], "ok", what + ":" + adigest(g2))
            same = g2.shape == e2.shape and ((g2.dtype.names is None and e2.dtype.names is None and np.array_equal(g2, e2))
                                             or (g2.dtype.names is not None and e2.dtype.names is not None
                                                 and list(g2.dtype.names) == list(e2.dtype.names)
                                                 and all(np.array_equal(g2[nm], e2[nm]) for nm in g2.dtype.names)))
            if not same:
                run.fail("rec.select.value", feats, "%s on a %d-row binary table (%.2f GiB): got %r, the rows written there are %r"
                         % (what, n, n * 24 / 2.0 ** 30, g2[:6], e2[:6]))
                return
    finally:
        if rf is not None:
            try:
                rf.close()
            except Exception:
                pass
        try:
            os.unlink(path)
        except OSError:
            pass


def op_observe(w, op, mods):
    """harmless looks at an open object -- repr, str, len, the row count, the dtype, the mode, the header copy --
    between the operations that matter: looking must not change anything, and a row count that is reported must be
    the model's."""
    run = w.run
    h = w.handles.get(op["h"])
    if h is None:
        raise Skip("no such handle")
    obj, p = h["obj"], h["path"]
    m = w.files.get(p)
    seen = []
    for what in op["what"]:
        try:
            if what == "repr":
                repr(obj)
            elif what == "str":
                str(obj)
            elif what == "len":
                seen.append(("len", len(obj)))
            elif what == "nrows":
                seen.append(("nrows", obj.nrows if h["kind"] == "Recfile" else obj.get_nrows()))
            elif what == "dtype":
                obj.dtype
            elif what == "mode":
                obj.get_mode() if h["kind"] == "SFile" else obj.mode
            elif what == "name":
                obj.get_filename() if h["kind"] == "SFile" else obj.filename
            elif what == "header" and h["kind"] == "SFile":
                # "get a copy of the header": the caller owns what it gets and edits it
                _scribble(w, obj.get_header())
        except Exception:
            pass            # (which of these a half-written object supports is not the subject; values are)
    run.fault("caller_looked_at_an_open_object")
    run.event(op.get("c", 0), "observe", p, "ok", ",".join(op["what"]))
    if m is None or m.get("pending") or w.prop not in ("C01", "C02", "C03", "C04"):
        return
    if h["role"] == "r" and m.get("writers", 0) > 0:
        return
    for what, v in seen:
        if isinstance(v, (int, np.integer)) and not isinstance(v, bool):
            run.checks += 1
            if int(v) != w.nrows(m):
                run.fail("rec.observe.nrows", _feat(m, kind=h["kind"], mode=h["mode"]),
                         "%s of the open %s(%r) object on %s says %d rows, %d were written"
                         % (what, h["kind"], h["mode"], p, int(v), w.nrows(m)))
                return


_DECOY = (b"SIZE =                    2\n{'_DTYPE': [('decoy', '<i4')], '_VERSION': '1.0'}\nEND\n\n" + b"\x07\x00\x00\x00\x08\x00\x00\x00")


def op_chdir(w, op, mods):
    """the program changes its working directory (and back) while files and objects opened under RELATIVE names are
    alive: an open object refers to the file it was opened on, not to whatever the name would mean now.  The other
    directory holds files of the same names (small valid sfiles with other contents)."""
    run = w.run
    if w.cfg.get("pathform", "abs") != "mixed":
        raise Skip("names are not relative in this run")
    if w.elsewhere is None:
        d = os.path.join(w.root, "elsewhere")
        os.makedirs(d, exist_ok=True)
        for p in list(w.files.keys()) + [h["path"] for h in w.handles.values()]:
            try:
                with open(os.path.join(d, p), "wb") as fh:
                    fh.write(_DECOY)
            except OSError:
                pass
        os.chdir(d)
        w.elsewhere = d
    else:
        os.chdir(w.root)
        w.elsewhere = None
    run.fault("working_directory_changed_while_objects_were_open" if w.handles or w.reused else "working_directory_changed")
    run.event(op.get("c", 0), "chdir", "elsewhere" if w.elsewhere else "back", "ok")


OPS = {"chdir": op_chdir, "observe": op_observe, "sparse": op_sparse, "stale": op_stale, "create": op_create, "read": op_read, "header": op_header, "open_w": op_open_w,
       "write": op_write, "close": op_close, "append": op_append, "open_r": op_open_r,
       "reopen_obj": op_reopen_obj, "hread": op_hread, "hread_bad": op_hread_bad, "write_ro": op_write_ro}
