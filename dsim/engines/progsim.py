"""
progsim -- progress wrappers under a simulated clock and a simulated consumer (mode "wrap"),
and pmap on a REAL ProcessPoolExecutor whose completion order is decided by a virtual-time
pool model and enforced through per-item FIFO gates (mode "pool"); pool runs may be histories of several
pmap calls, earlier ones with an injected worker-process death or task failure.   (C20, part of C15)

Simulator-owned: time.time as seen by esutil.pbar, laziness/length/failures of the wrapped
iterable, when the consumer abandons the iterator, per-item latencies and therefore which
worker process finishes next.  Real: esutil.pbar, concurrent.futures.ProcessPoolExecutor with
forked workers, esutil.algorithm sorts/isplit, numpy_util.splitarray.
"""
import heapq
import io
import multiprocessing
import os
import sys
import time as _time

import numpy as np

from ..kernel import chance, pick, wpick, adigest, sdigest

REAL = ["esutil.pbar (pbar/PBar/prange/sbar/pmap/format_meter)",
        "concurrent.futures.ProcessPoolExecutor with real forked worker processes",
        "esutil.algorithm.quicksort/quicksort_keyvalue/isplit", "esutil.numpy_util.splitarray"]
STUB = ["wall clock (SimClock)", "per-item task latency (virtual; completion order enforced by gates)"]


# =========================================================================== SimClock

class SimClock(object):
    """Every read advances by the next scripted increment (cyclic)."""

    def __init__(self, t0, steps):
        self.t = float(t0)
        self.steps = list(steps) or [0.001]
        self.i = 0
        self.reads = 0
        self.covered = 0.0
        self.kinds = {}

    def time(self):
        dt = self.steps[self.i % len(self.steps)]
        self.i += 1
        self.reads += 1
        self.t += dt
        self.covered += abs(dt)
        k = "stall" if dt == 0 else ("back" if dt < 0 else ("jump" if dt >= 100 else "tick"))
        self.kinds[k] = self.kinds.get(k, 0) + 1
        return self.t

    monotonic = time
    perf_counter = time

    def sleep(self, s):
        self.t += s

    def __getattr__(self, name):       # anything else a `time` module user may touch
        return getattr(_time, name)


class _ClockInstalled(object):
    def __init__(self, clock, patch_all):
        self.clock = clock
        self.patch_all = patch_all

    def __enter__(self):
        import esutil.pbar as pb
        self.pb = pb
        self.saved_attr = pb.__dict__.get("time")
        pb.time = self.clock
        self.saved = {}
        # pool mode: the executor's own threads may read the time module concurrently, so only
        # esutil.pbar's view of the clock is replaced there
        names = ("time", "monotonic", "perf_counter") if self.patch_all else ()
        for n in names:
            self.saved[n] = getattr(_time, n)
            setattr(_time, n, self.clock.time)
        return self

    def __exit__(self, *a):
        for n, f in self.saved.items():
            setattr(_time, n, f)
        if self.saved_attr is not None:
            self.pb.time = self.saved_attr
        return False


def draw_clock(r):
    t0 = pick(r, [0.0, 1.7e9, -5.0, 12345.678])
    regime = wpick(r, [("calm", 3), ("stally", 2), ("jumpy", 2), ("backward", 2), ("mixed", 3)])
    steps = []
    for _ in range(r.randrange(1, 9)):
        if regime == "calm":
            k = "tick"
        elif regime == "stally":
            k = wpick(r, [("tick", 1), ("stall", 2)])
        elif regime == "jumpy":
            k = wpick(r, [("tick", 2), ("jump", 1), ("half", 1)])
        elif regime == "backward":
            k = wpick(r, [("tick", 2), ("back", 1), ("half", 1)])
        else:
            k = wpick(r, [("tick", 3), ("stall", 1), ("jump", 1), ("back", 1), ("half", 1)])
        if k == "tick":
            steps.append(round(r.uniform(0.001, 0.05), 4))
        elif k == "stall":
            steps.append(0.0)
        elif k == "half":
            steps.append(round(r.uniform(0.4, 0.7), 3))
        elif k == "jump":
            steps.append(float(round(10 ** r.uniform(2, 7))))
        else:
            steps.append(-float(round(10 ** r.uniform(-1, 4), 2)))
    return {"t0": t0, "steps": steps, "regime": regime}


# =========================================================================== sources

class SourceBoom(Exception):
    pass


class _CountIter(object):
    def __init__(self, owner):
        self.o = owner
        self.i = 0

    def __iter__(self):
        return self

    def __next__(self):
        o = self.o
        o.pulls += 1
        if o.fail_at is not None and self.i == o.fail_at:
            o.boom = SourceBoom("source failed at item %d" % self.i)
            raise o.boom
        if self.i >= len(o.items):
            raise StopIteration
        v = o.items[self.i]
        self.i += 1
        return v


class CountGen(object):
    """Length-less iterable that counts how often it is pulled."""

    def __init__(self, items, fail_at=None):
        self.items = items
        self.fail_at = fail_at
        self.pulls = 0
        self.iters = 0
        self.boom = None

    def __iter__(self):
        self.iters += 1
        return _CountIter(self)


class CountSeq(CountGen):
    def __len__(self):
        return len(self.items)


def make_source(src):
    n = src["n"]
    items = [i * 7 + 3 for i in range(n)]
    if src.get("vals") == "mixed":
        # what iterables hold in real programs: None, falsy values, strings, tuples -- not only positive integers
        pool = [None, 0, "", False, (), 3.5, "x", None, [], 0.0, b"", (None,), -1]
        off = src.get("voff", 0)
        items = [pool[(i + off) % len(pool)] for i in range(n)]
    k = src["kind"]
    if k == "list":
        return items, list(items), None
    if k == "tuple":
        return items, tuple(items), None
    if k == "range":
        ra = src.get("rargs") or [n]
        return list(range(*ra)), range(*ra), None
    if k == "ndarray":
        return items, np.array(items, dtype="i8"), None
    if k == "gen":
        def g():
            for v in items:
                yield v
        return items, g(), None
    if k == "countgen":
        s = CountGen(items, src.get("fail_at"))
        return items, s, s
    if k == "countseq":
        s = CountSeq(items, src.get("fail_at"))
        return items, s, s
    raise ValueError(k)


def draw_opts(r, n, has_len, simple_ok=True):
    o = {}
    if chance(r, 0.4):
        o["desc"] = pick(r, ["", "x", "load 100%", "a: b", "50% sample", "mag %s", "%d{}"])
    if chance(r, 0.5):
        tk = wpick(r, [("len", 3), ("more", 1), ("less", 1)])
        if tk == "len":
            o["total"] = n
        elif tk == "more":
            o["total"] = n + r.randrange(1, 5)
        else:
            o["total"] = max(1, n - r.randrange(1, 4))
        if o["total"] == 0:
            # a total of 0 for a non-empty source is a caller error (simple mode divides by it)
            if n > 0:
                o["total"] = 1
    if chance(r, 0.3):
        o["leave"] = chance(r, 0.5)
    if simple_ok and chance(r, 0.3):
        o["simple"] = chance(r, 0.8)
    if chance(r, 0.6):
        o["mininterval"] = pick(r, [0, 0.5, 1e9, -1.0, 0.01])
    if chance(r, 0.5):
        o["miniters"] = pick(r, [0, 1, 3, 10 ** 9])
    if chance(r, 0.4):
        o["n_bars"] = pick(r, [0, 1, 20, 57])
    return o


# =========================================================================== plan

def plan(S, prop, mode, tier, avoid):
    if mode == "pool":
        return plan_pool(S, prop, tier, avoid)
    if mode == "pure":
        return plan_pure(S, prop, tier, avoid)
    return plan_wrap(S, prop, tier, avoid)


def plan_pure(S, prop, tier, avoid):
    """The three pure clauses of C20, addressed directly (no simulation content: stated in DESIGN.md 3.6).
    Run indices 0..200 are the exhaustive sweep isplit(num, 1..60) for num = index; the other runs
    sample sorts and splitarray."""
    idx = getattr(S, "index", None)
    if idx is not None and 0 <= idx <= 200:
        return {"cfg": {"kind": "isplit_sweep", "num": idx, "nmax": 60}, "ops": []}
    r = S.py("data")
    ops = []
    for _ in range(r.randrange(4, 16)):
        which = wpick(r, [("qs", 3), ("qskv", 4), ("splitarray", 2), ("isplit", 1)])
        n = wpick(r, [(0, 0.5), (1, 0.5), (2, 1), (r.randrange(3, 12), 4), (r.randrange(12, 80), 3), (r.randrange(80, 400), 1)])
        op = {"k": which, "n": n, "seed": r.randrange(1 << 30),
              "keymode": pick(r, ["ties", "ties2", "random", "sorted", "reversed", "constant", "float", "fties", "organ"]),
              "container": pick(r, ["array", "array", "list"]), "dt": pick(r, ["i8", "i4", "f8", "f4", "u2"])}
        if which in ("qs", "qskv") and chance(r, 0.12) and n >= 3:
            # a sort that must FAIL half-way (records that cannot be ordered once their keys tie, a stray string among
            # numbers): what it leaves behind must not disturb the sorts that follow
            ops.append({"k": which + "_bad", "n": n, "seed": r.randrange(1 << 30), "keymode": pick(r, ["ties", "ties2", "random"]),
                        "bad": pick(r, ["dictpayload", "str"]), "pos": r.randrange(0, n), "container": "list", "dt": "i8"})
            if chance(r, 0.6):
                # ... and the next thing sorted is SHORTER than what failed
                ops.append({"k": which, "n": r.randrange(0, min(4, n)), "seed": r.randrange(1 << 30), "keymode": "random",
                            "container": pick(r, ["array", "list"]), "dt": "i8"})
        if which == "splitarray":
            op["nper"] = wpick(r, [(1, 1), (r.randrange(1, 12), 4), (n + 1, 1), (max(1, n), 1), (r.randrange(1, 400), 1)])
        if which == "isplit":
            op["n"] = r.randrange(0, 5000)
            op["nchunks"] = r.randrange(1, 300)
        ops.append(op)
    return {"cfg": {"kind": "sample"}, "ops": ops}


def plan_wrap(S, prop, tier, avoid):
    r = S.py("config")
    n = wpick(r, [(0, 1), (1, 1), (r.randrange(2, 8), 4), (r.randrange(8, 31), 2)])
    kind = wpick(r, [("list", 2), ("tuple", 1), ("range", 2), ("ndarray", 1), ("gen", 2),
                     ("countgen", 4), ("countseq", 4)])
    src = {"kind": kind, "n": n}
    if kind in ("countgen", "countseq") and chance(r, 0.25):
        src["fail_at"] = r.randrange(0, n + 1)
    ra = S.py("rangeargs")
    if kind not in ("range", "ndarray") and chance(ra, 0.25):
        src["vals"] = "mixed"
        src["voff"] = ra.randrange(0, 13)
    if kind == "range" and chance(ra, 0.5):
        # ranges other than range(n): a start, a step, a range that ends at 0 or counts down (always n items)
        step = pick(ra, [1, 1, 1, 2, 3, -1, -1, -2])
        stop = pick(ra, [0, 0, ra.randrange(-5, 6)])
        src["rargs"] = [stop - n * step, stop, step] if (step != 1 or chance(ra, 0.3)) else [stop - n, stop]
    has_len = kind not in ("gen", "countgen")
    entry = wpick(r, [("pbar", 5), ("PBar", 1), ("sbar", 1.5), ("prange", 1.5 if kind == "range" else 0)])
    opts = draw_opts(r, n, has_len, simple_ok=entry in ("pbar", "PBar", "prange"))
    if entry == "sbar":
        opts = {k: v for k, v in opts.items() if k in ("desc", "total")}
    clock = draw_clock(S.py("clock"))
    sched = S.py("schedule")
    # consumer: how many pulls, then abandon (close) or run to exhaustion
    if chance(sched, 0.3) and n > 0:
        m = sched.randrange(0, n + 1)
        ops = [{"k": "pull"} for _ in range(m)] + [{"k": "close"}]
    else:
        ops = [{"k": "pull"} for _ in range(n + 1)]
        if chance(sched, 0.3):
            ops.append({"k": "pull"})       # one more next() after exhaustion
    out = {"cfg": {"src": src, "entry": entry, "opts": opts, "clock": clock}, "ops": ops}
    nb = S.py("nestedbar")
    if chance(nb, 0.1):
        out["cfg"]["inner"] = nb.randrange(1, 4)
        out["cfg"]["inner_entry"] = pick(nb, ["pbar", "prange"])
    return out


def plan_pool(S, prop, tier, avoid):
    r = S.py("config")
    n = wpick(r, [(0, 1), (1, 1), (r.randrange(2, 10), 5), (r.randrange(10, 41), 3)])
    nproc = wpick(r, [(1, 1), (2, 3), (3, 2), (4, 2), (r.randrange(5, 9), 1.5)])
    ck = wpick(r, [("one", 4), ("few", 3), ("any", 2), ("over", 1)])
    if ck == "one":
        chunksize = 1
    elif ck == "few":
        chunksize = r.randrange(1, 4)
    elif ck == "any":
        chunksize = r.randrange(1, n + 2)
    else:
        chunksize = n + 1
    lat = S.py("faults")
    regime = wpick(lat, [("uniform", 2), ("heavy", 3), ("straggler", 2), ("ties", 2), ("decreasing", 1),
                         ("zero", 0.5)])
    L = []
    for i in range(n):
        if regime == "uniform":
            v = lat.uniform(0.5, 1.5)
        elif regime == "heavy":
            v = min(500.0, lat.paretovariate(1.1))
        elif regime == "straggler":
            v = 100.0 if i == 0 or chance(lat, 0.08) else lat.uniform(0.5, 1.5)
        elif regime == "ties":
            v = float(lat.randrange(1, 4))
        elif regime == "decreasing":
            v = float(n - i)
        else:
            v = 0.0
        L.append(round(v, 3))
    pipeline = None
    work = "square"
    if chance(r, 0.5):
        data = S.py("data")
        num = wpick(data, [(0, 0.5), (1, 0.5), (data.randrange(2, 40), 4), (data.randrange(40, 201), 2)])
        pk = pick(data, ["isplit", "splitarray"])
        keymode = pick(data, ["ties", "random", "sorted", "reversed", "constant"])
        pipeline = {"kind": pk, "num": num, "keymode": keymode, "kseed": data.randrange(1 << 30),
                    "sort": pick(data, ["qs", "qskv"]), "container": pick(data, ["array", "list"])}
        if pk == "isplit":
            pipeline["nchunks"] = wpick(data, [(1, 1), (data.randrange(1, 8), 4), (data.randrange(8, 61), 2)])
            n = pipeline["nchunks"]
        else:
            pipeline["nper"] = wpick(data, [(1, 1), (data.randrange(1, 12), 4), (num + 1, 1), (max(1, num), 1)])
            n = (num + pipeline["nper"] - 1) // pipeline["nper"]
        # latencies for the (re)defined number of items
        while len(L) < n:
            L.append(L[len(L) % max(1, len(L))] if L else 1.0)
        L = L[:n]
        if chunksize > n + 1:
            chunksize = n + 1
        work = pipeline["sort"]
    kw = {}
    if chance(r, 0.5):
        kw["total"] = n
    if chance(r, 0.5):
        kw["mininterval"] = pick(r, [0, 0.5])
    if chance(r, 0.3):
        kw["desc"] = "pmap"
    if chance(r, 0.2):
        kw["leave"] = False
    if chance(r, 0.15):
        kw["simple"] = True
        kw["total"] = max(1, n)
    tiebreak = pick(r, ["index", "reverse"])
    ops = [{"k": "item", "lat": L[i]} for i in range(n)]
    # history: earlier pmap calls of the same program, some with an injected fault (a task that kills its
    # worker process, a task that raises); the call judged above all is the one that FOLLOWS them
    pre = []
    h = S.py("history")
    if chance(h, 0.3):
        for _ in range(wpick(h, [(1, 3), (2, 1)])):
            pn = h.randrange(1, 7)
            pc = {"nproc": nproc if chance(h, 0.7) else h.randrange(1, 5), "chunksize": wpick(h, [(1, 3), (2, 1), (pn + 1, 0.5)]),
                  "lat": [round(h.uniform(0.5, 1.5), 2) if chance(h, 0.7) else float(h.randrange(1, 3)) for _ in range(pn)],
                  "tiebreak": pick(h, ["index", "reverse"]), "fault": None}
            if chance(h, 0.55):
                pc["fault"] = {"kind": wpick(h, [("die", 3), ("raise", 2)]), "at": h.randrange(pn)}
            pre.append(pc)
    # how the caller hands the items over: a container with a length, or a one-shot iterable without one
    fr = S.py("itemform")
    itemform = wpick(fr, [("list", 5), ("tuple", 1), ("gen", 2), ("iter", 1), ("map", 1), ("gen_pmap", 0.4)])
    if pipeline is None and n <= 8 and chance(fr, 0.05):
        work = "nested"
    elif pipeline is None and chance(fr, 0.06):
        work = "none"
    # what kind of callable the task is: a module-level function, a functools.partial, an object with __call__, a
    # bound method
    fnform = wpick(fr, [("func", 6), ("partial", 2), ("object", 1), ("method", 1)])
    return {"cfg": {"nproc": nproc, "chunksize": chunksize, "kw": kw, "work": work, "pipeline": pipeline,
                    "clock": draw_clock(S.py("clock")), "tiebreak": tiebreak, "lat_regime": regime, "pre": pre,
                    "itemform": itemform, "fnform": fnform},
            "ops": ops}


def describe(script):
    return {"mode": script.get("mode"), "cfg": script["cfg"], "ops": script["ops"]}


# =========================================================================== execute: wrap

def execute(script, run, env):
    if script.get("mode") == "pool":
        return execute_pool(script, run, env)
    if script.get("mode") == "pure":
        return execute_pure(script, run, env)
    return execute_wrap(script, run, env)


def _judge_isplit(run, algorithm, num, nch, feats, again=True):
    run.checks += 1
    try:
        subs = algorithm.isplit(num, nch)
    except Exception as e:
        run.fail("prog.isplit", feats, "isplit(%d,%d) raised %r" % (num, nch, e))
        return
    if again:
        # the caller owns what it got: it shifts its ranges in place (say, to a global offset) and asks again
        _judge_isplit(run, algorithm, num, nch, feats, again=False)
        if run.failures:
            return
        try:
            subs["start"] += 1000
            subs["end"] += 1000
        except Exception:
            pass
        subs = algorithm.isplit(num, nch)
        feats = dict(feats, history="after the caller edited an earlier result in place")
    msg = ""
    if subs.size != nch:
        msg = "returned %d ranges" % subs.size
    else:
        st = subs["start"].astype("i8")
        en = subs["end"].astype("i8")
        sizes = en - st
        if st[0] != 0 or en[-1] != num or np.any(st[1:] != en[:-1]) or np.any(sizes < 0):
            msg = "ranges are not contiguous over 0..num: start=%r end=%r" % (st[:8].tolist(), en[:8].tolist())
        elif sizes.max() - sizes.min() > 1 or np.any(np.diff(sizes) > 0):
            msg = "sizes %r do not differ by at most one, larger first" % (sizes[:20].tolist(),)
    if msg:
        run.fail("prog.isplit", feats, "isplit(%d,%d)%s: %s" % (num, nch, " " + feats["history"] if "history" in feats else "", msg))


def _keys(op):
    g = np.random.Generator(np.random.PCG64(op["seed"]))
    n = op["n"]
    km = op["keymode"]
    dt = op.get("dt", "i8")
    if km == "ties":
        k = g.integers(0, max(2, n // 3 + 1), n)
    elif km == "ties2":
        k = g.integers(0, 2, n)
    elif km == "random":
        k = g.permutation(n)
    elif km == "sorted":
        k = np.arange(n)
    elif km == "reversed":
        k = np.arange(n)[::-1].copy()
    elif km == "constant":
        k = np.full(n, 7)
    elif km == "organ":
        k = np.concatenate([np.arange(n // 2), np.arange(n - n // 2)[::-1]]) if n else np.zeros(0, dtype="i8")
    elif km == "float":
        k = np.round(g.normal(0, 100, n), 3)
        dt = "f8" if dt[0] != "f" else dt
    else:
        k = np.round(g.normal(0, 2, n), 0)
        dt = "f8" if dt[0] != "f" else dt
    if dt == "u2":
        k = np.abs(k)
    return np.asarray(k).astype(dt)


def execute_pure(script, run, env):
    from esutil import algorithm, numpy_util
    cfg = script["cfg"]
    run.nontrivial = True
    if cfg.get("kind") == "isplit_sweep":
        num = cfg["num"]
        for nch in range(1, cfg.get("nmax", 60) + 1):
            _judge_isplit(run, algorithm, num, nch, {"stage": "isplit", "sweep": True})
            if run.failures:
                break
        run.probe("isplit_sweep_row")
        run.event(0, "isplit_sweep", str(num), "ok" if not run.failures else "fail")
        return
    for i, op in enumerate(script["ops"]):
        run.step = i
        k = op["k"]
        if k == "isplit":
            _judge_isplit(run, algorithm, op["n"], op["nchunks"], {"stage": "isplit"})
            run.event(0, k, "%d/%d" % (op["n"], op["nchunks"]), "ok")
        elif k in ("qs_bad", "qskv_bad"):
            base = _keys(op).tolist()
            if op.get("bad") == "str":
                base[op["pos"] % len(base)] = "x"
                data = base
            else:
                data = [(kk, {"payload": j}) for j, kk in enumerate(base)]
            vals = list(range(len(data)))
            try:
                if k == "qs_bad":
                    algorithm.quicksort(data)
                else:
                    algorithm.quicksort_keyvalue(data, vals)
                out = "accepted"
            except Exception as e:
                out = "rejected(%s)" % type(e).__name__
                run.fault("sort_failed_half_way")
            run.event(0, k, sdigest(op), out.split("(")[0])
        elif k in ("qs", "qskv"):
            keys = _keys(op)
            vals = np.arange(keys.size, dtype="i8") * 3 + 1
            if op["container"] == "list":
                inp = (keys.tolist(), vals.tolist())
            else:
                inp = (keys, vals)
            try:
                out = _work(k, inp)
            except Exception as e:
                run.fail("prog.sort", {"stage": k}, "%s on %d items (%s, %s) raised %r" % (k, keys.size, op["keymode"], op["container"], e))
                break
            _judge_sorted(run, k, inp, out, i)
            if keys.size > 1 and np.unique(keys).size < keys.size:
                run.probe("sort_with_ties")
            run.event(0, k, sdigest(op), "ok", adigest(np.asarray(out[0] if k == "qskv" else out)))
        elif k == "splitarray":
            keys = _keys(op)
            arg = keys.tolist() if op["container"] == "list" else keys
            nper = op["nper"]
            run.checks += 1
            try:
                kc = numpy_util.splitarray(nper, arg)
            except Exception as e:
                run.fail("prog.splitarray", {"stage": k}, "splitarray(%d, %s[%d]) raised %r" % (nper, op["container"], keys.size, e))
                break
            msg = ""
            exp = (keys.size + nper - 1) // nper
            if len(kc) != exp:
                msg = "returned %d chunks, expected %d" % (len(kc), exp)
            elif any(len(c) != nper for c in kc[:-1]) or (kc and not (1 <= len(kc[-1]) <= nper)):
                msg = "chunk sizes %r for nper=%d" % ([len(c) for c in kc][:20], nper)
            elif keys.size and not np.array_equal(np.concatenate([np.asarray(c) for c in kc]), keys):
                msg = "concatenation differs from the input"
            if msg:
                run.fail("prog.splitarray", {"stage": k}, "splitarray(%d, %s[%d]): %s" % (nper, op["container"], keys.size, msg))
            run.event(0, k, sdigest(op), "ok")
        if run.failures:
            break


def _optclass(cfg):
    o = cfg["opts"]
    t = o.get("total")
    n = cfg["src"]["n"]
    tk = "none" if t is None else ("len" if t == n else ("more" if t > n else "less"))
    return "%s|%s|total=%s" % (cfg["entry"], "simple" if o.get("simple") else "full", tk)


def execute_wrap(script, run, env):
    import esutil.pbar as pb
    cfg = script["cfg"]
    judge = run.prop == "C20"
    src = cfg["src"]
    items, source, counter = make_source(src)
    n = len(items)
    opts = dict(cfg["opts"])
    buf = io.StringIO()
    opts["file"] = buf
    clock = SimClock(cfg["clock"]["t0"], cfg["clock"]["steps"])
    entry = cfg["entry"]
    has_len = src["kind"] not in ("gen", "countgen")
    may_reject = (entry == "sbar" or opts.get("simple")) and not has_len and opts.get("total") is None
    fail_at = src.get("fail_at")
    feats = {"entry": entry, "simple": bool(opts.get("simple")) or entry == "sbar", "has_len": has_len,
             "total": "none" if opts.get("total") is None else "given"}
    oc = _optclass(cfg)
    received = []
    state = {"done": False}

    def st():
        b = len(received)
        return "%s|src=%s|got=%s|clock=%s" % (oc, src["kind"], "0" if b == 0 else ("1" if b == 1 else "n"),
                                              cfg["clock"]["regime"])

    if not has_len:
        run.fault("lengthless_source")
    if src.get("rargs"):
        run.fault("range_with_start_or_step")
    if opts.get("total") is not None and opts["total"] != n:
        run.fault("wrong_total")
    with _ClockInstalled(clock, True):
        try:
            if entry == "prange":
                it = pb.prange(*(src.get("rargs") or [n]), **opts)
            elif entry == "sbar":
                it = pb.sbar(source, **opts)
            elif entry == "PBar":
                it = pb.PBar(source, **opts)
            else:
                it = pb.pbar(source, **opts)
            it = iter(it)
        except Exception as e:
            run.event(0, "wrap", oc, "error(%s)" % type(e).__name__)
            if judge and not may_reject:
                run.fail("prog.wrap.ctor", feats, "%s(%s, %r) raised %r" % (entry, src, cfg["opts"], e))
            return
        for i, op in enumerate(script["ops"]):
            run.step = i
            s0 = st()
            run.states.add(s0)
            if op["k"] == "close":
                run.trans.add(s0 + "|abandon")
                try:
                    if hasattr(it, "close"):
                        it.close()
                    run.fault("consumer_abandoned")
                    run.event(0, "close", "", "ok")
                except Exception as e:
                    run.event(0, "close", "", "error(%s)" % type(e).__name__)
                    if judge:
                        run.fail("prog.wrap.close", feats, "closing the progress iterator after %d items raised %r" % (len(received), e))
                if judge and counter is not None:
                    run.checks += 1
                    if counter.pulls > len(received) + (1 if state["done"] else 0):
                        run.fail("prog.wrap.lazy", feats, "after abandoning at %d items the source had been pulled %d times" % (len(received), counter.pulls))
                state["done"] = True
                continue
            if state["done"] and op["k"] == "pull":
                # next() after exhaustion/abandon must keep raising StopIteration
                try:
                    v = next(it)
                    run.event(0, "pull", "", "ok-after-end", repr(v))
                    if judge:
                        run.fail("prog.wrap.extra", feats, "next() after the end returned %r" % (v,))
                except StopIteration:
                    run.event(0, "pull", "", "stop")
                except Exception as e:
                    run.event(0, "pull", "", "error(%s)" % type(e).__name__)
                continue
            k = len(received)
            run.trans.add(s0 + "|pull")
            try:
                v = next(it)
            except StopIteration:
                state["done"] = True
                run.event(0, "pull", "", "stop")
                if judge:
                    run.checks += 1
                    exp_n = n if fail_at is None else min(n, fail_at)
                    if fail_at is not None and fail_at <= n and k == fail_at:
                        run.fail("prog.wrap.swallow", feats, "the source raised at item %d but the wrapper ended normally" % k)
                    elif k != exp_n:
                        run.fail("prog.wrap.items", feats, "iteration ended after %d of %d items (%s over %s)" % (k, n, entry, src["kind"]))
                    if counter is not None and counter.pulls not in (n, n + 1):
                        run.fail("prog.wrap.lazy", feats, "at exhaustion the source had been pulled %d times for %d items" % (counter.pulls, n))
                continue
            except SourceBoom as e:
                state["done"] = True
                run.fault("source_raised")
                run.event(0, "pull", "", "source-error")
                if judge:
                    run.checks += 1
                    if e is not counter.boom:
                        run.fail("prog.wrap.exc", feats, "a different exception object reached the consumer")
                    if k != fail_at:
                        run.fail("prog.wrap.exc", feats, "source failed at item %r but the consumer had received %d items" % (fail_at, k))
                continue
            except Exception as e:
                state["done"] = True
                run.event(0, "pull", "", "error(%s)" % type(e).__name__)
                if may_reject and k == 0 and isinstance(e, (RuntimeError, AssertionError, TypeError)):
                    run.probe("simple_lengthless_rejected")
                    continue
                if judge:
                    run.fail("prog.wrap.raises", feats, "next() #%d on %s(%s, %r) raised %r" % (k + 1, entry, src, cfg["opts"], e))
                continue
            received.append(v)
            run.event(0, "pull", "", "ok", repr(v))
            if cfg.get("inner"):
                # the loop body runs a progress bar of its own (nested loops): another wrapper object, the same clock
                try:
                    inner_items = [x for x in pb.pbar(range(cfg["inner"]), file=io.StringIO(), leave=False)] if cfg.get("inner_entry", "pbar") == "pbar" \
                        else [x for x in pb.prange(cfg["inner"], file=io.StringIO())]
                except Exception as e:
                    inner_items = e
                if k == 0:
                    run.fault("loop_body_runs_a_progress_bar_of_its_own")
                if judge and inner_items != list(range(cfg["inner"])):
                    run.fail("prog.wrap.items", dict(feats, inner=True), "a progress bar run inside the loop body yielded %r, expected %r"
                             % (inner_items, list(range(cfg["inner"]))))
            if judge:
                run.checks += 1
                same = k < n and (v == items[k] if src.get("vals") != "mixed" else (type(v) is type(items[k]) and v == items[k]))
                if not same:
                    run.fail("prog.wrap.items", feats, "item #%d is %r, the source's is %r" % (k, v, items[k] if k < n else "<none>"))
                if counter is not None and counter.pulls != len(received):
                    run.fail("prog.wrap.lazy", feats, "after %d items were received the source had been pulled %d times" % (len(received), counter.pulls))
    text = buf.getvalue()
    run.event(0, "output", "", "ok", sdigest(text))
    for kk, c in clock.kinds.items():
        if kk != "tick":
            run.fault("clock_" + kk, c)
    run.virtual_s += clock.covered
    run.nontrivial = bool(len(received) >= 1 and (clock.kinds.keys() - {"tick"} or not has_len or fail_at is not None
                                                    or any(o["k"] == "close" for o in script["ops"])
                                                    or opts.get("total") not in (None, n)))


# =========================================================================== SimPool model

def pool_model(nitems, nproc, chunksize, lat, tiebreak):
    """Discrete-event model of a FIFO process pool in virtual time: `nproc` workers, chunks
    handed out in submission order to whichever worker becomes free, items of a chunk processed
    sequentially, item i taking lat[i].  Returns (sigma, completion times, makespan, chunks);
    sigma is a causally possible completion order (exact ties are broken by `tiebreak` among the
    items that are running at that instant)."""
    chunks = [list(range(s, min(nitems, s + chunksize))) for s in range(0, nitems, chunksize)]
    nxt = 0
    running = {}            # worker -> [chunk index, position in chunk, finish time of current item]
    for w in range(nproc):
        if nxt < len(chunks):
            running[w] = [nxt, 0, lat[chunks[nxt][0]]]
            nxt += 1
    comp = [0.0] * nitems
    sigma = []
    sign = -1 if tiebreak == "reverse" else 1
    while running:
        w = min(running, key=lambda k: (running[k][2], sign * running[k][0]))
        ci, pos, t = running[w]
        item = chunks[ci][pos]
        comp[item] = t
        sigma.append(item)
        if pos + 1 < len(chunks[ci]):
            running[w] = [ci, pos + 1, t + lat[chunks[ci][pos + 1]]]
        elif nxt < len(chunks):
            running[w] = [nxt, 0, t + lat[chunks[nxt][0]]]
            nxt += 1
        else:
            del running[w]
    return sigma, comp, (max(comp) if comp else 0.0), chunks


# =========================================================================== gated task

import select
import struct

_REC = struct.Struct("<ci")      # event record written to the events FIFO: kind (s/d), item index
_PDEATH_SET = [False]


def _die_with_parent():
    """pool workers must not outlive the process that owns the pool (Linux prctl PR_SET_PDEATHSIG)"""
    if _PDEATH_SET[0]:
        return
    _PDEATH_SET[0] = True
    try:
        import ctypes
        ctypes.CDLL(None, use_errno=True).prctl(1, 9, 0, 0, 0)
    except Exception:
        pass


def _inner_square(x):
    return x * x + 1


def _work(kind, payload):
    if kind == "square":
        return payload * payload + 1
    if kind == "none":
        return None                 # a task run for its side effect
    if kind == "nested":
        # the task uses the parallel map itself (a two-level computation): a pmap call that begins and ends inside a
        # worker of another pmap call
        import esutil.pbar as pb
        return sum(pb.pmap(_inner_square, [payload, payload + 1, payload + 2], nproc=2, file=io.StringIO()))
    from esutil import algorithm
    if kind == "qs":
        keys = payload[0]
        data = keys.copy() if isinstance(keys, np.ndarray) else list(keys)
        algorithm.quicksort(data)
        return data
    if kind == "qskv":
        keys, vals = payload
        k2 = keys.copy() if isinstance(keys, np.ndarray) else list(keys)
        v2 = vals.copy() if isinstance(vals, np.ndarray) else list(vals)
        algorithm.quicksort_keyvalue(k2, v2)
        return (k2, v2)
    raise ValueError(kind)


class InjectedTaskError(ValueError):
    pass


def _emit(calldir, kind, i):
    """report to the controller; never blocks and never fails: when the controller has gone (the call
    ended, e.g. after an injected fault) there is nobody to tell"""
    try:
        fd = os.open(os.path.join(calldir, "ev"), os.O_WRONLY | os.O_NONBLOCK)
    except OSError:
        return
    try:
        os.write(fd, _REC.pack(kind, i))     # 5 bytes: atomic (< PIPE_BUF)
    except OSError:
        pass
    finally:
        os.close(fd)


def gated(item):
    """The task handed to pmap.  Everything it needs travels in the item (index, payload, rendezvous
    directory, kind of work, injected fault), so it does not depend on what the worker process inherited
    at fork time: it works the same whether the pool is created per call or kept between calls.
    Reports start(i), waits until the controller opens gate i, works, reports done(i)."""
    i, payload, calldir, work, fault = item
    _die_with_parent()
    _emit(calldir, b"s", i)
    try:
        fd = os.open(os.path.join(calldir, "g%d" % i), os.O_RDWR)     # O_RDWR on a FIFO never blocks, never sees EOF
    except OSError:
        fd = None                                                     # the call is over and its directory gone
    if fd is not None:
        try:
            marker = os.path.join(calldir, "open_all")
            while True:
                r, _w, _x = select.select([fd], [], [], 0.05)
                if r:
                    os.read(fd, 1)
                    break
                if os.path.exists(marker) or not os.path.isdir(calldir):
                    break
        finally:
            os.close(fd)
    if fault == "die":
        try:
            with open(os.path.join(calldir, "caller")) as fh:
                caller = int(fh.read())
        except (OSError, ValueError):
            caller = None
        if caller == os.getpid():
            # pmap runs this task in the CALLING process (a serial path is a legitimate way to honour nproc=1):
            # there is no worker process to lose, the fault degrades to a task that raises
            _emit(calldir, b"d", i)
            raise InjectedTaskError("injected failure of item %d (no worker process to kill)" % i)
        os._exit(13)                  # the worker process dies in the middle of its task
    if fault == "raise":
        _emit(calldir, b"d", i)
        raise InjectedTaskError("injected failure of item %d" % i)
    out = _work(work, payload)
    _emit(calldir, b"d", i)
    return out


class GatedCallable(object):
    """the task given as an object with __call__ (no __name__, no __qualname__ of a function)"""
    def __init__(self, scale=1):
        self.scale = scale

    def __call__(self, item):
        return gated(item)


def _gated_kw(item, unused=None):
    return gated(item)


def _as_fn(form):
    if form == "partial":
        import functools
        return functools.partial(_gated_kw, unused=0)
    if form == "object":
        return GatedCallable()
    if form == "method":
        return GatedCallable().__call__
    return gated


def plain(item):
    if item[3] == "nested":
        return sum((item[1] + j) * (item[1] + j) + 1 for j in range(3))     # (the reference does not go through pmap)
    return _work(item[3], item[1])


def _controller(sigma, calldir, report, watchdog, stop_after=None):
    """Releases the gates in the order sigma, waiting for done(i) before the next release.
    stop_after: index of an item whose task kills its worker (no done record can follow)."""
    started = set()
    done = set()
    start_order = []
    over = []
    status = "ok"
    ev = os.open(os.path.join(calldir, "ev"), os.O_RDWR)
    keep = []
    try:
        def pump(pred):
            t_end = _REAL_MONO() + watchdog
            while not pred():
                left = t_end - _REAL_MONO()
                if left <= 0:
                    return False
                r, _w, _x = select.select([ev], [], [], left)
                if not r:
                    return False
                data = os.read(ev, _REC.size)
                while len(data) < _REC.size:
                    data += os.read(ev, _REC.size - len(data))
                kind, i = _REC.unpack(data)
                if kind == b"q":
                    over.append(True)         # the pmap call itself is over: nothing more can arrive
                    return False
                if kind == b"s":
                    started.add(i)
                    start_order.append(i)
                else:
                    done.add(i)
            return True
        for i in sigma:
            if not pump(lambda: i in started):
                status = "inconclusive:start(%d) never arrived%s" % (i, " (the call was over)" if over else "")
                break
            fd = os.open(os.path.join(calldir, "g%d" % i), os.O_RDWR | os.O_NONBLOCK)
            os.write(fd, b"x")
            keep.append(fd)           # the byte stays in the pipe while this end is open
            if stop_after is not None and i == stop_after:
                status = "fault-injected"
                break
            if not pump(lambda: i in done):
                status = "inconclusive:done(%d) never arrived" % i
                break
    except BaseException as e:  # noqa
        status = "inconclusive:controller %r" % (e,)
    finally:
        if status != "ok":
            try:
                with open(os.path.join(calldir, "open_all"), "w"):
                    pass
            except OSError:
                pass
        try:
            report.send((status, start_order, sorted(done)))
        except Exception:
            pass
        if status != "ok":
            _time.sleep(0.3)          # waiting tasks poll the marker every 50 ms
        for fd in keep + [ev]:
            try:
                os.close(fd)
            except OSError:
                pass


_REAL_MONO = _time.monotonic


def _pipeline_items(run, p, judge):
    """Stage 1 of a pipeline run: build key/value data and cut it with isplit / splitarray.
    The two pure clauses are judged here on the sampled arguments."""
    from esutil import algorithm, numpy_util
    g = np.random.Generator(np.random.PCG64(p["kseed"]))
    num = p["num"]
    km = p["keymode"]
    if km == "ties":
        keys = g.integers(0, max(2, num // 3 + 1), num)
    elif km == "random":
        keys = g.permutation(num)
    elif km == "sorted":
        keys = np.arange(num)
    elif km == "reversed":
        keys = np.arange(num)[::-1].copy()
    else:
        keys = np.zeros(num, dtype="i8")
    keys = keys.astype("i8")
    vals = np.arange(num, dtype="i8") * 3 + 1
    feats = {"stage": p["kind"]}
    pieces = []
    if p["kind"] == "isplit":
        nch = p["nchunks"]
        subs = algorithm.isplit(num, nch)
        if judge:
            run.checks += 1
            ok = (subs.size == nch)
            msg = ""
            if ok:
                st = subs["start"].astype("i8")
                en = subs["end"].astype("i8")
                sizes = en - st
                if st[0] != 0 or en[-1] != num or np.any(st[1:] != en[:-1]) or np.any(sizes < 0):
                    ok, msg = False, "ranges are not contiguous over 0..num"
                elif sizes.max() - sizes.min() > 1 or np.any(np.diff(sizes) > 0):
                    ok, msg = False, "sizes %r do not differ by at most one, larger first" % (sizes.tolist(),)
            else:
                msg = "returned %d ranges" % subs.size
            if not ok:
                run.fail("prog.isplit", feats, "isplit(%d,%d): %s" % (num, nch, msg))
        for i in range(subs.size):
            s, e = int(subs["start"][i]), int(subs["end"][i])
            pieces.append((keys[s:e].copy(), vals[s:e].copy()))
    else:
        nper = p["nper"]
        kc = numpy_util.splitarray(nper, keys)
        vc = numpy_util.splitarray(nper, vals)
        if judge:
            run.checks += 1
            msg = ""
            exp = (num + nper - 1) // nper
            if len(kc) != exp:
                msg = "returned %d chunks, expected %d" % (len(kc), exp)
            elif any(len(c) != nper for c in kc[:-1]) or (kc and not (1 <= len(kc[-1]) <= nper)):
                msg = "chunk sizes %r for nper=%d" % ([len(c) for c in kc], nper)
            elif num and not np.array_equal(np.concatenate(kc), keys):
                msg = "concatenation differs from the input"
            if msg:
                run.fail("prog.splitarray", feats, "splitarray(%d, array[%d]): %s" % (nper, num, msg))
        for a, b in zip(kc, vc):
            pieces.append((np.array(a).copy(), np.array(b).copy()))
    if p["container"] == "list":
        pieces = [(a.tolist(), b.tolist()) for a, b in pieces]
    return keys, vals, pieces


def _judge_sorted(run, kind, inp, out, idx):
    run.checks += 1
    feats = {"stage": kind}
    if kind == "qs":
        src = list(inp[0])
        res = list(out)
        if sorted(src) != res:
            run.fail("prog.sort", feats, "quicksort of chunk %d (%d items) is not the sorted permutation: %r -> %r"
                     % (idx, len(src), src[:20], res[:20]))
    else:
        k0, v0 = list(inp[0]), list(inp[1])
        k1, v1 = list(out[0]), list(out[1])
        if k1 != sorted(k0):
            run.fail("prog.sort", feats, "quicksort_keyvalue keys of chunk %d not the sorted permutation: %r -> %r"
                     % (idx, k0[:20], k1[:20]))
        elif sorted(zip(k0, v0)) != sorted(zip(k1, v1)):
            run.fail("prog.sort", feats, "quicksort_keyvalue broke key/value pairs in chunk %d" % idx)


def _eq(a, b):
    if isinstance(a, np.ndarray) or isinstance(b, np.ndarray):
        return isinstance(a, np.ndarray) and isinstance(b, np.ndarray) and a.dtype == b.dtype and np.array_equal(a, b)
    if isinstance(a, tuple) and isinstance(b, tuple):
        return len(a) == len(b) and all(_eq(x, y) for x, y in zip(a, b))
    return type(a) == type(b) and a == b


def _as_form(items, form):
    if form == "tuple":
        return tuple(items)
    if form == "gen":
        return (x for x in items)
    if form == "iter":
        return iter(items)
    if form == "gen_pmap":
        def g():
            # the items come out of a computation that itself uses the parallel map while the outer call consumes it
            import esutil.pbar as pb
            for j, x in enumerate(items):
                if j % 5 == 0:
                    pb.pmap(_inner_square, [j, j + 1], nproc=2, file=io.StringIO())
                yield x
        return g()
    if form == "map":
        return map(tuple, items)
    return items


def _run_call(run, root, callno, items, sigma, nproc, chunksize, kw, clock, stop_after=None, form="list", fnform="func"):
    """One pmap call on real worker processes under the enforced completion order sigma.
    Returns (status, got, err)."""
    import esutil.pbar as pb
    calldir = os.path.join(root, "call%d" % callno)
    os.makedirs(calldir)
    os.mkfifo(os.path.join(calldir, "ev"))
    for it in items:
        os.mkfifo(os.path.join(calldir, "g%d" % it[0]))
    with open(os.path.join(calldir, "caller"), "w") as fh:
        fh.write("%d" % os.getpid())
    items = [(it[0], it[1], calldir, it[3], it[4]) for it in items]
    ctx = multiprocessing.get_context("fork")
    rep_r, rep_w = ctx.Pipe(duplex=False)
    watchdog = float(os.environ.get("VERIF_POOL_WATCHDOG", "8"))
    sys.stdout.flush()
    sys.stderr.flush()
    cpid = os.fork()
    if cpid == 0:
        try:
            rep_r.close()
            _controller(sigma, calldir, rep_w, watchdog, stop_after)
        finally:
            os._exit(0)
    rep_w.close()
    err = None
    got = None
    status = "inconclusive:no report"
    evfd = os.open(os.path.join(calldir, "ev"), os.O_RDWR)      # the FIFO has a reader from now on: no report is lost
    try:
        with _ClockInstalled(clock, False):
            try:
                got = pb.pmap(_as_fn(fnform), _as_form(items, form), chunksize=chunksize, nproc=nproc, **kw)
            except Exception as e:
                err = e
        _emit(calldir, b"q", 0)
    finally:
        os.close(evfd)
        try:
            if rep_r.poll(watchdog * 2 + 10):
                status, _start_order, _done = rep_r.recv()
        except Exception:
            pass
        try:
            pid_, st_ = os.waitpid(cpid, os.WNOHANG)
            if pid_ == 0:
                try:
                    with open(os.path.join(calldir, "open_all"), "w"):
                        pass
                except OSError:
                    pass
                os.kill(cpid, 9)
                os.waitpid(cpid, 0)
        except OSError:
            pass
        try:
            rep_r.close()
        except Exception:
            pass
    return status, got, err


def _pre_call(run, root, callno, pc, judge, clock):
    """An earlier pmap call of the same program (history): small, optionally with an injected fault --
    a task that kills its worker process ('die') or raises ('raise').  A faulty call must raise; what
    matters is that the calls AFTER it are right."""
    n = len(pc["lat"])
    fault = pc.get("fault")
    items = [(i, i * 5 + 2, None, "square", (fault["kind"] if fault and fault["at"] == i else None)) for i in range(n)]
    sigma, comp, makespan, chunks = pool_model(n, pc["nproc"], max(1, pc["chunksize"]), [float(x) for x in pc["lat"]],
                                               pc.get("tiebreak", "index"))
    stop_after = fault["at"] if fault and fault["kind"] == "die" and fault["at"] < n else None
    if fault and fault["kind"] == "raise" and fault["at"] < n:
        # items after the failing one in its chunk are never started: stop the controller there as well
        stop_after = fault["at"]
    buf = io.StringIO()
    status, got, err = _run_call(run, root, callno, items, sigma, pc["nproc"], max(1, pc["chunksize"]),
                                 {"file": buf}, clock, stop_after)
    run.virtual_s += makespan
    faulty = bool(fault) and fault["at"] < n
    feats = {"call": "earlier", "fault": fault["kind"] if faulty else "none"}
    if faulty:
        run.fault("worker_process_killed" if fault["kind"] == "die" else "task_raised")
        run.event(0, "pmap_pre", "n=%d nproc=%d cs=%d %s@%d" % (n, pc["nproc"], pc["chunksize"], fault["kind"], fault["at"]),
                  "error" if err is not None else "returned")
        if judge and err is None and status in ("ok", "fault-injected"):
            run.checks += 1
            run.fail("prog.pmap.swallowed", feats, "pmap returned %r although the task of item %d %s"
                     % (got, fault["at"], "killed its worker process" if fault["kind"] == "die" else "raised"))
        return
    if status != "ok":
        run.inconclusive += 1
        run.event(0, "pmap_pre", "n=%d" % n, "inconclusive")
        return
    run.event(0, "pmap_pre", "n=%d nproc=%d cs=%d" % (n, pc["nproc"], pc["chunksize"]),
              "ok" if err is None else "error(%s)" % type(err).__name__)
    if judge:
        run.checks += 1
        exp = [plain(it) for it in items]
        if err is not None:
            run.fail("prog.pmap.raises", feats, "pmap(fn, %d items, chunksize=%d, nproc=%d) raised %r" % (n, pc["chunksize"], pc["nproc"], err))
        elif got != exp:
            run.fail("prog.pmap.order", feats, "pmap(fn, %d items, chunksize=%d, nproc=%d) != list(map(fn, items)) under completion order %r: got %r"
                     % (n, pc["chunksize"], pc["nproc"], sigma, got))


def execute_pool(script, run, env):
    cfg = script["cfg"]
    judge = run.prop == "C20"
    ops = script["ops"]
    n = len(ops)
    lat = [float(o["lat"]) for o in ops]
    nproc, chunksize = cfg["nproc"], max(1, cfg["chunksize"])
    work = cfg["work"]
    p = cfg.get("pipeline")
    if p is not None:
        keys, vals, pieces = _pipeline_items(run, p, judge)
        # after shrinking the op list may be shorter than the number of pieces
        pieces = pieces[:n]
        n = len(pieces)
        lat = lat[:n]
        items = [(i, pieces[i], None, work, None) for i in range(n)]
    else:
        items = [(i, i * 7 + 3, None, work, None) for i in range(n)]
    sigma, comp, makespan, chunks = pool_model(n, nproc, chunksize, lat, cfg.get("tiebreak", "index"))
    kw = dict(cfg["kw"])
    if "total" in kw:
        kw["total"] = max(1, n) if kw.get("simple") else n
    buf = io.StringIO()
    kw["file"] = buf
    clock = SimClock(cfg["clock"]["t0"], cfg["clock"]["steps"])
    root = env.disk()
    expected = [plain(it) for it in items]
    pre = cfg.get("pre") or []
    for j, pc in enumerate(pre):
        _pre_call(run, root, j, pc, judge, clock)
        if run.failures:
            return
    after_fault = [pc["fault"]["kind"] for pc in pre if pc.get("fault") and pc["fault"]["at"] < len(pc["lat"])]
    if pre:
        run.fault("earlier_pmap_calls_in_the_same_process", len(pre))
    form = cfg.get("itemform", "list")
    if form != "list":
        run.fault("items_as_" + ("one_shot_iterable" if form != "tuple" else "tuple"))
    if form == "gen_pmap" or work == "nested":
        run.fault("pmap_used_inside_a_running_pmap_call")
    fnform = cfg.get("fnform", "func")
    if fnform != "func":
        run.fault("task_given_as_" + fnform)
    status, got, err = _run_call(run, root, len(pre), items, sigma, nproc, chunksize, kw, clock, form=form, fnform=fnform)
    inversions = sum(1 for a in range(len(sigma)) for b in range(a + 1, len(sigma)) if sigma[a] > sigma[b])
    feats = {"total": "given" if "total" in cfg["kw"] else "none", "simple": bool(kw.get("simple")),
             "out_of_order": inversions > 0}
    if after_fault:
        feats["after"] = after_fault[-1]
        run.fault("pmap_call_after_a_failed_one")
    run.virtual_s += makespan + clock.covered
    if status != "ok" and err is None and judge:
        # the completion order could not be enforced (tasks never started, or not when the pool model says), but
        # pmap RETURNED: what it returned is list(map(fn, items)) or it is not, whatever the schedule was
        run.checks += 1
        if not isinstance(got, list) or len(got) != len(expected) or not all(_eq(a, b) for a, b in zip(got, expected)):
            run.fail("prog.pmap.order", dict(feats, out_of_order=False, schedule="not enforced"),
                     "pmap(fn, %d items given as %s, chunksize=%d, nproc=%d) returned %s, expected %s (completion order not enforced: %s)"
                     % (n, form, chunksize, nproc, repr(got)[:300], repr(expected)[:300], status))
            return
    if status != "ok" and not (err is not None and after_fault):
        run.inconclusive += 1
        run.event(0, "pmap", "n=%d nproc=%d cs=%d" % (n, nproc, chunksize), "inconclusive")
        run.probe("inconclusive:" + status.split(":", 1)[-1].split("(")[0])
        if os.environ.get("VERIF_DEBUG"):
            sys.stderr.write("INCONCLUSIVE %s sigma=%r err=%r script=%r\n" % (status, sigma, err, script))
        return
    if inversions:
        run.fault("out_of_order_completion")
    if lat and max(lat) >= 20 * (sorted(lat)[len(lat) // 2] + 1e-9):
        run.fault("straggler")
    if len(set(comp)) < len(comp):
        run.fault("exact_tie")
    if nproc > max(1, len(chunks)):
        run.fault("more_workers_than_chunks")
    if n == 0:
        run.fault("empty_input")
    if chunksize > n:
        run.fault("chunk_larger_than_input")
    if nproc == 1:
        run.probe("single_worker")
    run.states.add("nproc=%d|chunks=%s|inv=%s|pre=%d%s" % (nproc, _bucket(len(chunks)), _bucket(inversions), len(pre),
                                                         "|after=" + after_fault[-1] if after_fault else ""))
    # distinct sigma up to order-isomorphism: sigma itself (items are 0..n-1)
    run.trans.add("sigma=" + sdigest(sigma) if n > 8 else "sigma=%r" % (sigma,))
    run.nontrivial = inversions > 0 or bool(after_fault)
    if err is not None:
        run.event(0, "pmap", "n=%d nproc=%d cs=%d" % (n, nproc, chunksize), "error(%s)" % type(err).__name__)
        if judge:
            run.fail("prog.pmap.raises", feats, "pmap(fn, %d items, chunksize=%d, nproc=%d, %r)%s raised %r"
                     % (n, chunksize, nproc, cfg["kw"],
                        " after an earlier pmap call whose task %s" % ("killed its worker process" if after_fault[-1] == "die" else "raised")
                        if after_fault else "", err))
        return
    run.event(0, "pmap", "n=%d nproc=%d cs=%d" % (n, nproc, chunksize), "ok",
              sdigest(adigest([(None if x is None else np.asarray(x)) if not isinstance(x, tuple) else tuple(np.asarray(y) for y in x) for x in got]))
              if isinstance(got, list) else repr(type(got)))
    if judge:
        run.checks += 1
        if not isinstance(got, list) or len(got) != len(expected) or not all(_eq(a, b) for a, b in zip(got, expected)):
            def short(x):
                s = repr(x)
                return s if len(s) < 300 else s[:300] + "..."
            run.fail("prog.pmap.order", feats,
                     "pmap(fn, %d items, chunksize=%d, nproc=%d) != list(map(fn, items)) under completion order %r: got %s expected %s"
                     % (n, chunksize, nproc, sigma[:40], short(got), short(expected)))
        if p is not None and isinstance(got, list) and len(got) == n:
            for i in range(n):
                _judge_sorted(run, work, pieces[i], got[i], i)


def _bucket(k):
    return "0" if k == 0 else ("1" if k == 1 else ("few" if k <= 5 else "many"))


# =========================================================================== shrinking

def simplify(script):
    cfg = script["cfg"]
    ops = script["ops"]
    if script.get("mode") == "pure":
        if cfg.get("kind") == "isplit_sweep":
            return
        for i, op in enumerate(ops):
            for nn in (0, 1, 2, 3, op["n"] // 2, op["n"] - 1):
                if 0 <= nn < op["n"]:
                    yield dict(script, ops=ops[:i] + [dict(op, n=nn)] + ops[i + 1:])
            for key, val in (("container", "array"), ("dt", "i8"), ("keymode", "ties2"), ("keymode", "constant")):
                if op.get(key) != val:
                    yield dict(script, ops=ops[:i] + [dict(op, **{key: val})] + ops[i + 1:])
        return
    if script.get("mode") == "pool":
        pre = cfg.get("pre") or []
        for k in range(len(pre)):
            c = dict(script)
            c["cfg"] = dict(cfg, pre=pre[:k] + pre[k + 1:])
            yield c
            if len(pre[k]["lat"]) > 1:
                pc = dict(pre[k], lat=pre[k]["lat"][:1])
                if pc.get("fault"):
                    pc["fault"] = dict(pc["fault"], at=0)
                c = dict(script)
                c["cfg"] = dict(cfg, pre=pre[:k] + [pc] + pre[k + 1:])
                yield c
        for key, val in (("nproc", 2), ("nproc", 1), ("chunksize", 1), ("kw", {}), ("pipeline", None),
                         ("tiebreak", "index"), ("itemform", "list"), ("fnform", "func")):
            if cfg.get(key) != val:
                c = dict(script)
                c["cfg"] = dict(cfg, **{key: val})
                if key == "pipeline":
                    c["cfg"]["work"] = "square"
                yield c
        c = dict(script)
        c["cfg"] = dict(cfg, clock={"t0": 0.0, "steps": [0.001], "regime": "calm"})
        if c["cfg"]["clock"] != cfg["clock"]:
            yield c
        for i, op in enumerate(ops):
            for v in (1.0, 0.0):
                if op["lat"] != v:
                    c = dict(script)
                    c["ops"] = ops[:i] + [dict(op, lat=v)] + ops[i + 1:]
                    yield c
        return
    for key in list(cfg["opts"].keys()):
        c = dict(script)
        c["cfg"] = dict(cfg, opts={k: v for k, v in cfg["opts"].items() if k != key})
        yield c
    if cfg["clock"]["steps"] != [0.001]:
        c = dict(script)
        c["cfg"] = dict(cfg, clock={"t0": 0.0, "steps": [0.001], "regime": "calm"})
        yield c
        if len(cfg["clock"]["steps"]) > 1:
            for i in range(len(cfg["clock"]["steps"])):
                c = dict(script)
                st = cfg["clock"]["steps"][:i] + cfg["clock"]["steps"][i + 1:]
                c["cfg"] = dict(cfg, clock=dict(cfg["clock"], steps=st))
                yield c
    src = cfg["src"]
    if src["n"] > 0:
        for nn in (src["n"] // 2, src["n"] - 1):
            if 0 <= nn < src["n"]:
                ns = dict(src, n=nn)
                if ns.get("rargs"):
                    ra = ns["rargs"]
                    st_ = ra[2] if len(ra) == 3 else 1
                    ns["rargs"] = [ra[1] - nn * st_] + ra[1:]
                if ns.get("fail_at") is not None and ns["fail_at"] > nn:
                    ns["fail_at"] = nn
                c = dict(script)
                c["cfg"] = dict(cfg, src=ns)
                yield c
    if src.get("fail_at") is not None:
        c = dict(script)
        c["cfg"] = dict(cfg, src={k: v for k, v in src.items() if k != "fail_at"})
        yield c
    if cfg["entry"] != "pbar" and cfg["entry"] != "prange":
        c = dict(script)
        c["cfg"] = dict(cfg, entry="pbar")
        yield c
