"""
rngsim -- random sky positions and samplers driven by a simulator-owned random source (C19,
part of C15).  The source records every deviate it hands out and forces legal edge deviates;
region and identity checks are recomputed from the recorded deviates.
"""
import math

import numpy as np

from ..kernel import chance, pick, wpick, adigest, sdigest, scribble, Held
from ..simrng import SimRNG, global_state_token, global_state_now
from .. import present

REAL = ["esutil.coords.randsphere/randcap/rotate", "esutil.random.Generator/CholeskySampler/cholesky_sample/random_indices",
        "esutil.stat.interplin", "scipy.integrate.cumulative_trapezoid", "numpy.linalg.cholesky"]
STUB = ["the random source (SimRNG): that is the point of the engine; real RandomState/default_rng are used as a control group"]

from ..refs.sphere import sep_deg  # noqa: E402

RHO_SMALL = 2e-3        # degrees: class boundary used for features (historical finding on small separations)


# =========================================================================== plan

def _draw_center(r):
    k = wpick(r, [("any", 5), ("pole", 2), ("nearpole", 2), ("seam", 2), ("equator", 1)])
    if k == "any":
        return round(r.uniform(0, 360), 6), round(math.degrees(math.asin(r.uniform(-1, 1))), 6)
    if k == "pole":
        return pick(r, [0.0, 123.4, 359.9]), pick(r, [90.0, -90.0])
    if k == "nearpole":
        return round(r.uniform(0, 360), 4), pick(r, [89.95, -89.95, 89.9, -89.9, 89.8999, 89.0, -89.5, 89.99999])
    if k == "seam":
        return pick(r, [0.0, 1e-7, 359.99999, 0.5, 359.5]), round(r.uniform(-80, 80), 4)
    if chance(r, 0.4):
        return pick(r, [0.0, 180.0, 90.0, 270.0, 360.0, 45.0]), 0.0
    return round(r.uniform(0, 360), 4), 0.0


def _draw_radius(r, avoid_small):
    k = wpick(r, [("tiny", 0 if avoid_small else 1.5), ("small", 3), ("mid", 4), ("big", 2), ("huge", 1)])
    if k == "tiny":
        return float("%.3g" % (10 ** r.uniform(-6, math.log10(RHO_SMALL))))
    if k == "small":
        return float("%.3g" % (10 ** r.uniform(math.log10(RHO_SMALL) + 0.5, -0.5)))
    if k == "mid":
        return round(r.uniform(0.3, 30), 3) if not chance(r, 0.2) else pick(r, [1.0, 1, 2.0, 5, 10.0, 0.5, 30])
    if k == "big":
        return round(r.uniform(30, 179), 2) if not chance(r, 0.2) else pick(r, [45.0, 60, 90, 120.0, 150])
    return pick(r, [180.0, 179.999, 90.0, 179.0, 180])


def plan(S, prop, mode, tier, avoid):
    r = S.py("config")
    avoid_small = any(e.get("features", {}).get("rho") == "small" for e in avoid)
    ops = []
    for _ in range(wpick(r, [(1, 3), (2, 2), (3, 1)])):
        k = wpick(r, [("cap", 5), ("box", 3), ("sampler", 4), ("cholesky", 2.5), ("indices", 1.5)])
        op = {"k": k, "seed": r.randrange(1 << 30), "flavour": pick(r, ["legacy", "new"]),
              "edge": wpick(r, [(0.0, 3), (0.05, 2), (0.3, 2), (1.0, 0.5)])}
        if avoid_small and k == "cap":
            # edge deviates drive the requested radius to 0: part of the small-rho class
            op["edge"] = 0.0
        if k == "cap":
            ra, dec = _draw_center(r)
            op.update({"n": wpick(r, [(1, 1), (r.randrange(2, 30), 4), (r.randrange(30, 400), 1),
                                      (r.randrange(1000001, 2600000), 0.004)]),      # rarely more than a million points
                       "ra": ra, "dec": dec, "rad": _draw_radius(r, avoid_small),
                       "get_radius": chance(r, 0.5), "dorot": chance(r, 0.3)})
            if chance(r, 0.06):
                op["nty"] = pick(r, ["i8", "i4"])
            if chance(r, 0.12):
                op["cty"] = pick(r, ["f4", "f4", "f8"])
                op["rty"] = chance(r, 0.5)
            if op["n"] > 100000:
                op["edge"] = 0.0            # (edge deviates are forced one by one in Python: not for a million draws)
                op["rad"] = max(op["rad"], 1e-3)
        elif k == "box":
            bk = wpick(r, [("any", 5), ("full", 1), ("zero_ra", 1), ("zero_dec", 1), ("polar", 1.5), ("default", 1),
                           ("round", 2)])
            a0, a1 = sorted([round(r.uniform(0, 360), 4), round(r.uniform(0, 360), 4)])
            d0, d1 = sorted([round(r.uniform(-90, 90), 4), round(r.uniform(-90, 90), 4)])
            if bk == "full":
                a0, a1, d0, d1 = 0.0, 360.0, -90.0, 90.0
            elif bk == "zero_ra":
                a1 = a0
            elif bk == "zero_dec":
                d1 = d0
            elif bk == "round":
                # the boxes people type: whole numbers (ints as often as floats), the equator or ra=0 as an edge,
                # a hemisphere, an octant, and the degenerate boxes on those lines
                a0, a1 = pick(r, [(0, 90), (0, 180), (0.0, 360.0), (0, 0), (0.0, 0.0), (180, 360), (90, 90), (0, 1), (359, 360),
                                  (a0, a1)])
                d0, d1 = pick(r, [(0, 30), (0, 90), (-40, 0), (-90, 0), (0, 0), (0.0, 0.0), (-30, 30), (0.0, 45.0), (-1, 0),
                                  (-90.0, 0.0), (0, 1), (d0, d1)])
            elif bk == "polar":
                d0, d1 = pick(r, [(89.0, 90.0), (-90.0, -89.9), (89.9999, 90.0), (-90.0, 90.0), (-90.0, -90.0), (90.0, 90.0)])
            op.update({"n": wpick(r, [(1, 1), (r.randrange(2, 40), 4), (r.randrange(40, 500), 1)]),
                       "ra_range": None if bk == "default" else [a0, a1],
                       "dec_range": None if (bk == "default" or chance(r, 0.1)) else [d0, d1],
                       "system": wpick(r, [("eq", 4), ("xyz", 1)]),
                       "container": pick(r, ["list", "tuple", "array"])})
        elif k == "sampler":
            m = wpick(r, [(3, 1), (r.randrange(4, 12), 4), (r.randrange(12, 80), 2)])
            op.update({"m": m, "n": wpick(r, [(None, 0.5), (1, 1), (r.randrange(2, 60), 4)]),
                       "gseed": r.randrange(1 << 30), "cumulative": chance(r, 0.3),
                       "func": chance(r, 0.35), "via_xrange": chance(r, 0.4),
                       "dens": pick(r, ["flat", "gauss", "power", "rough", "steep", "fartail", "gap"]),
                       "x0": round(r.uniform(-100, 100), 3), "w": float("%.3g" % (10 ** r.uniform(-3, 3)))})
            if chance(r, 0.012):
                # a finely tabulated density and more deviates than table entries (implementations that sort the
                # deviates for a long table meet that path here)
                op["m"] = r.randrange(4098, 7000)
                op["n"] = op["m"] + r.randrange(1, 3000)
                op["dens"] = pick(r, ["gauss", "power", "rough", "flat"])
            elif chance(r, 0.12):
                # two samplers built one after the other from the SAME density object on the SAME grid; the object's
                # parameters change in between
                op.update({"func": True, "via_xrange": True, "cumulative": False, "shared": True})
                sib = dict(op, seed=r.randrange(1 << 30), dens=pick(r, [d_ for d_ in ["flat", "gauss", "power", "steep"] if d_ != op["dens"]]))
                ops.append(dict(op))
                op = sib
            if op["dens"] in ("fartail", "gap") and op["cumulative"]:
                # a caller-supplied cumulative table with runs of equal values describes a density that is zero
                # there: outside the quantifier (positive densities).  Far tails only through the density itself
                op["dens"] = "gauss"
            if prop == "C15":
                op["px"] = present.draw(r)
                op["pp"] = present.draw(r)
        elif k == "cholesky":
            d = r.randrange(1, 6)
            op.update({"d": d, "n": wpick(r, [(None, 0.5), (1, 1), (r.randrange(2, 40), 4)]),
                       "cseed": r.randrange(1 << 30), "api": pick(r, ["class", "func", "func_nomean"]),
                       "scale": float("%.3g" % (10 ** (r.uniform(-3, 3) if chance(r, 0.6) else r.uniform(-14, 6))))})
            if chance(r, 0.3):
                # parameters of very different units (a flux, a position, a shape): sigma ratios up to 1e9, i.e. a
                # covariance that is ill conditioned by scaling alone (Cholesky does not mind)
                op["axscale"] = [round(r.uniform(-4.5, 4.5), 2) for _ in range(d)]
            if op["api"] == "class" and chance(r, 0.5):
                op["more"] = [wpick(r, [(None, 3), (1, 1), (r.randrange(2, 10), 2)]) for _ in range(r.randrange(1, 4))]
            if prop == "C15":
                op["pc"] = present.draw(r)
                op["pm"] = present.draw(r)
        else:
            imax = wpick(r, [(1, 1), (r.randrange(2, 20), 4), (r.randrange(20, 2000), 2)])
            unique = chance(r, 0.6)
            nr = r.randrange(0, imax + 1) if unique else r.randrange(0, 3 * imax + 2)
            op.update({"imax": imax, "nrand": nr, "unique": unique, "how": pick(r, ["rng", "seed", "real"])})
            if chance(r, 0.01):
                # a sparse unique draw from a large range with a real generator (the birthday effect makes repeated
                # candidate values likely: ~1e5 out of 5e6)
                big = pick(r, [2000000, 5000000, 8000000])
                op.update({"imax": big, "nrand": big // pick(r, [50, 60, 100]), "unique": True, "how": "real"})
            elif chance(r, 0.06):
                # index ranges around and beyond what 4-byte integers hold (a selection from a very large catalogue, or
                # from a range that is not an array at all); a new-style generator draws these without a permutation
                big = pick(r, [2 ** 31 - 1, 2 ** 31, 2 ** 31 + 1, 3 * 10 ** 9, 2 ** 32 - 1, 2 ** 32, 2 ** 32 + 1, 2 ** 40,
                               2 ** 62])
                op.update({"imax": big, "nrand": wpick(r, [(1, 1), (r.randrange(2, 60), 4), (r.randrange(60, 3000), 1)]),
                           "how": pick(r, ["seed", "real"]), "flavour": "new"})
        ops.append(op)
    return {"cfg": {}, "ops": ops}


def describe(script):
    return {"ops": script["ops"]}


# =========================================================================== execute

def _mk_rng(op, targets=None, closed=False):
    return SimRNG(op["seed"], op["flavour"], op["edge"], targets, closed=closed)


def _real_rng(op):
    if op["flavour"] == "legacy":
        return np.random.RandomState(op["seed"])
    return np.random.default_rng(op["seed"])


def _own(fn):
    """wrap a do_* function: whatever arrays it kept in run._outputs are edited in place by the caller afterwards"""
    def g(run, op):
        run._outputs = []
        try:
            return fn(run, op)
        finally:
            if scribble(run._outputs):
                run.fault("caller_edited_a_result_in_place")
            run._outputs = []
    return g


def execute(script, run, env):
    for i, op in enumerate(script["ops"]):
        run.step = i
        tok = global_state_token()
        fn = {"cap": do_cap, "box": do_box, "sampler": do_sampler, "cholesky": do_cholesky, "indices": do_indices}[op["k"]]
        _own(fn)(run, op)
        if run.prop == "C19" and op["k"] != "cholesky" and not (op["k"] == "indices" and op.get("how") == "seed"):
            run.checks += 1
            if global_state_now() != tok:
                run.fail("rng.global_source", {"call": op["k"]},
                         "%s drew from numpy's global generator although a source was passed" % op["k"])
        if op["k"] == "cholesky" and run.prop == "C19":
            run.checks += 1
            if global_state_now() != tok:
                run.fail("rng.global_source", {"call": "cholesky"}, "the Cholesky sampler drew from numpy's global "
                         "generator although dist= was passed")
        if run.failures:
            break


def _same(a, b):
    if isinstance(a, tuple):
        return isinstance(b, tuple) and len(a) == len(b) and all(_same(x, y) for x, y in zip(a, b))
    a = np.asarray(a)
    b = np.asarray(b)
    return a.shape == b.shape and a.dtype == b.dtype and a.tobytes() == b.tobytes()


def _edges(run, rng):
    for k, c in rng.edges_fired.items():
        run.fault(k, c)
    if rng.edges_fired:
        run.nontrivial = True


# ------------------------------------------------------------------ cap

def do_cap(run, op):
    from esutil import coords
    judge = run.prop == "C19"
    n, ra, dec, rad = op["n"], op["ra"], op["dec"], op["rad"]
    kw = {"get_radius": op["get_radius"], "dorot": op["dorot"]}
    n_arg = n
    if op.get("nty"):
        n_arg = np.int64(n) if op["nty"] == "i8" else np.int32(n)     # the count as a numpy integer
        run.fault("count_given_as_a_numpy_integer")
    ra_arg, dec_arg, rad_arg = ra, dec, rad
    cty = op.get("cty", "py")
    if cty != "py":
        # the centre (and radius) come out of a catalogue column: numpy scalars, single precision among them.  The
        # centre IS the exact value of the scalar that is passed
        t = np.float32 if cty == "f4" else np.float64
        ra_arg, dec_arg = t(ra), t(dec)
        ra, dec = float(ra_arg), float(dec_arg)
        if op.get("rty"):
            rad_arg = t(rad)
            rad = float(rad_arg)
        if cty == "f4":
            run.fault("cap_centre_given_as_float32_scalars")
    rot = op["dorot"] or abs(dec) >= 89.9
    rng = _mk_rng(op)
    feats = {"call": "randcap", "rot": bool(rot), "get_radius": op["get_radius"]}
    st = "cap|%s|rot=%s|edge=%s" % (op["flavour"], rot, op["edge"] > 0)
    run.states.add(st)
    run.trans.add(st + "|r=%s|pole=%s" % (_rcls(rad), abs(dec) >= 89))
    if rot:
        run.fault("forced_rotation_path")
    try:
        out = coords.randcap(n_arg, ra_arg, dec_arg, rad_arg, rng=rng, **kw)
    except Exception as e:
        run.event(0, "cap", sdigest(op), "error(%s)" % type(e).__name__)
        if judge:
            run.fail("rng.cap.raises", feats, "randcap(%d, %r, %r, %r, %r) raised %r" % (n, ra, dec, rad, kw, e))
        return
    _edges(run, rng)
    run._outputs.append(out)
    run.event(0, "cap", sdigest(op), "ok", adigest(tuple(out)))
    if not judge:
        return
    run.checks += 1
    if len(out) != (3 if op["get_radius"] else 2):
        run.fail("rng.cap.shape", feats, "randcap returned %d arrays" % len(out))
        return
    pra, pdec = np.asarray(out[0]), np.asarray(out[1])
    if pra.shape != (n,) or pdec.shape != (n,):
        run.fail("rng.cap.count", feats, "randcap(%d, ...) returned shapes %r %r" % (n, pra.shape, pdec.shape))
        return
    if not (np.all(np.isfinite(pra)) and np.all(np.isfinite(pdec))):
        run.fail("rng.cap.range", feats, "non-finite coordinates from randcap(%d,%r,%r,%r)" % (n, ra, dec, rad))
        return
    if np.any(pra < 0) or np.any(pra > 360) or np.any(pdec < -90) or np.any(pdec > 90):
        run.fail("rng.cap.range", feats, "coordinates outside [0,360]x[-90,90]: ra in [%r,%r], dec in [%r,%r] for centre (%r,%r) radius %r"
                 % (pra.min(), pra.max(), pdec.min(), pdec.max(), ra, dec, rad))
        return
    # requested separations, recomputed from the recorded deviates (first call to random())
    rho_req = None
    for meth, note, vals in rng.log:
        if meth == "random":
            rho_req = np.sqrt(vals) * rad
            break
    sep = sep_deg(ra, dec, pra, pdec)
    cosd = np.maximum(np.cos(np.deg2rad(pdec)), 1e-9)
    tol = 1e-9 + 4e-14 / cosd
    over = sep - rad
    w = np.nonzero(over > tol)[0]
    if rho_req is not None and rho_req.shape == sep.shape:
        small = rho_req < RHO_SMALL
    else:
        small = np.full(sep.shape, rad < RHO_SMALL)
    big = ~small
    if big.any():
        run.margin("rng.cap.inside", float(np.max((over / tol)[big])))
    if w.size:
        i = int(w[np.argmax(over[w])])
        f2 = dict(feats, rho="small" if small[i] else "regular")
        # report a regular-class point first if there is one
        wr = [j for j in w if not small[j]]
        if wr:
            i = int(wr[0])
            f2["rho"] = "regular"
        run.fail("rng.cap.inside", f2,
                 "randcap(%d, ra=%r, dec=%r, rad=%r, dorot=%r): point %d (%r,%r) is %.3e deg from the centre, %.3e outside the cap (tol %.1e)"
                 % (n, ra, dec, rad, op["dorot"], i, pra[i], pdec[i], sep[i], over[i], tol[i]))
        return
    if op["get_radius"]:
        run.checks += 1
        prad = np.asarray(out[2])
        if prad.shape != (n,):
            run.fail("rng.cap.count", feats, "radius array has shape %r" % (prad.shape,))
            return
        err = np.abs(prad - sep)
        if big.any():
            run.margin("rng.cap.radius", float(np.max((err / tol)[big])))
        w = np.nonzero(err > tol)[0]
        if w.size:
            wr = [j for j in w if not small[j]]
            i = int(wr[0]) if wr else int(w[0])
            run.fail("rng.cap.radius", dict(feats, rho="regular" if wr else "small"),
                     "randcap(%d, ra=%r, dec=%r, rad=%r, get_radius=True, dorot=%r): returned radius %r for point %d, actual separation %r deg"
                     % (n, ra, dec, rad, op["dorot"], prad[i], i, sep[i]))
            return
    # reproducibility: same seeded source -> bit-identical output (SimRNG and real numpy)
    run.checks += 1
    out2 = coords.randcap(n, ra_arg, dec_arg, rad_arg, rng=_mk_rng(op), **kw)
    if not _same(tuple(out), tuple(out2)):
        run.fail("rng.cap.repro", feats, "two randcap calls with equal seeded sources differ")
        return
    try:
        r1 = coords.randcap(n, ra_arg, dec_arg, rad_arg, rng=_real_rng(op), **kw)
        r2 = coords.randcap(n, ra_arg, dec_arg, rad_arg, rng=_real_rng(op), **kw)
    except Exception as e:
        run.fail("rng.cap.real", dict(feats, flavour=op["flavour"]), "randcap with a real %s numpy generator raised %r" % (op["flavour"], e))
        return
    if not _same(tuple(r1), tuple(r2)):
        run.fail("rng.cap.repro", dict(feats, flavour=op["flavour"]), "two randcap calls with equally seeded real generators differ")
        return
    if np.asarray(r1[0]).shape != (n,):
        run.fail("rng.cap.count", feats, "with a real generator: shape %r" % (np.asarray(r1[0]).shape,))


def _rcls(rad):
    return "tiny" if rad < RHO_SMALL else ("small" if rad < 0.3 else ("mid" if rad < 30 else ("big" if rad < 179.5 else "huge")))


# ------------------------------------------------------------------ box

def do_box(run, op):
    from esutil import coords
    judge = run.prop == "C19"
    n = op["n"]
    conv = {"list": list, "tuple": tuple, "array": np.array}[op["container"]]
    kw = {}
    if op["ra_range"] is not None:
        kw["ra_range"] = conv(op["ra_range"])
    if op["dec_range"] is not None:
        kw["dec_range"] = conv(op["dec_range"])
    if op["system"] != "eq":
        kw["system"] = op["system"]
    a0, a1 = op["ra_range"] or [0.0, 360.0]
    d0, d1 = op["dec_range"] or [-90.0, 90.0]
    rng = _mk_rng(op)
    feats = {"call": "randsphere", "system": op["system"]}
    st = "box|%s|%s|edge=%s" % (op["flavour"], op["system"], op["edge"] > 0)
    run.states.add(st)
    run.trans.add(st + "|zw=%s|polar=%s" % (a0 == a1 or d0 == d1, abs(d0) == 90 or abs(d1) == 90))
    if a0 == a1 or d0 == d1:
        run.fault("zero_width_box")
    if (d0 == 0 or d1 == 0 or (op["ra_range"] is not None and a1 == 0)) and op["dec_range"] is not None:
        run.fault("box_edge_exactly_zero")
    try:
        out = coords.randsphere(n, rng=rng, **kw)
    except Exception as e:
        run.event(0, "box", sdigest(op), "error(%s)" % type(e).__name__)
        if judge:
            run.fail("rng.box.raises", feats, "randsphere(%d, %r) raised %r" % (n, kw, e))
        return
    _edges(run, rng)
    run._outputs.append(out)
    run.event(0, "box", sdigest(op), "ok", adigest(tuple(out)))
    if not judge:
        return
    run.checks += 1
    if op["system"] == "xyz":
        if len(out) != 3 or any(np.asarray(o).shape != (n,) for o in out):
            run.fail("rng.box.count", feats, "randsphere(%d, system='xyz') returned shapes %r" % (n, [np.asarray(o).shape for o in out]))
            return
        x, y, z = [np.asarray(o, dtype="f8") for o in out]
        nrm = np.sqrt(x * x + y * y + z * z)
        if np.any(np.abs(nrm - 1) > 1e-12):
            run.fail("rng.box.unit", feats, "xyz points are not unit vectors (|v|-1 up to %.2e)" % np.max(np.abs(nrm - 1)))
            return
        pdec = np.rad2deg(np.arctan2(z, np.hypot(x, y)))
        pra = np.rad2deg(np.arctan2(y, x)) % 360.0
        ra_tol = 1e-9 / np.maximum(np.cos(np.deg2rad(pdec)), 1e-9)
    else:
        if len(out) != 2 or any(np.asarray(o).shape != (n,) for o in out):
            run.fail("rng.box.count", feats, "randsphere(%d) returned shapes %r" % (n, [np.asarray(o).shape for o in out]))
            return
        pra, pdec = np.asarray(out[0], dtype="f8"), np.asarray(out[1], dtype="f8")
        ra_tol = 0.0
        if np.any(pra < 0) or np.any(pra > 360) or np.any(pdec < -90) or np.any(pdec > 90):
            run.fail("rng.box.range", feats, "coordinates outside [0,360]x[-90,90]")
            return
    if not (np.all(np.isfinite(pra)) and np.all(np.isfinite(pdec))):
        run.fail("rng.box.range", feats, "non-finite coordinates")
        return
    # latitude comes from a uniform deviate in sin(dec): conditioning 1/cos(dec) next to the poles
    def dtol(edge):
        c = math.cos(math.radians(edge))
        return 1e-10 + 4e-14 / max(c, 1e-9)
    lo_bad = pdec < d0 - dtol(d0)
    hi_bad = pdec > d1 + dtol(d1)
    run.margin("rng.box.dec", float(max(np.max((d0 - pdec) / dtol(d0)), np.max((pdec - d1) / dtol(d1)))) if n else 0.0)
    if np.any(lo_bad) or np.any(hi_bad):
        i = int(np.nonzero(lo_bad | hi_bad)[0][0])
        run.fail("rng.box.inside", dict(feats, coord="dec"), "randsphere(%d, %r): point %d has dec %r outside [%r,%r]" % (n, kw, i, pdec[i], d0, d1))
        return
    if op["system"] == "eq" or (a1 - a0) < 359.9:
        bad = (pra < a0 - ra_tol) | (pra > a1 + ra_tol)
        if op["system"] == "xyz":
            bad &= ~((np.abs(pdec) > 89.9999))      # longitude is undefined at the pole
            if a0 == 0.0:
                bad &= ~(pra > 360 - ra_tol)
            if a1 == 360.0:
                bad &= ~(pra < ra_tol)              # 360 and 0 are one meridian once the point is a vector
        if np.any(bad):
            i = int(np.nonzero(bad)[0][0])
            run.fail("rng.box.inside", dict(feats, coord="ra"), "randsphere(%d, %r): point %d has ra %r outside [%r,%r]" % (n, kw, i, pra[i], a0, a1))
            return
    run.checks += 1
    out2 = coords.randsphere(n, rng=_mk_rng(op), **kw)
    if not _same(tuple(out), tuple(out2)):
        run.fail("rng.box.repro", feats, "two randsphere calls with equal seeded sources differ")
        return
    try:
        r1 = coords.randsphere(n, rng=_real_rng(op), **kw)
        r2 = coords.randsphere(n, rng=_real_rng(op), **kw)
    except Exception as e:
        run.fail("rng.box.real", dict(feats, flavour=op["flavour"]), "randsphere with a real %s generator raised %r" % (op["flavour"], e))
        return
    if not _same(tuple(r1), tuple(r2)) or np.asarray(r1[0]).shape != (n,):
        run.fail("rng.box.repro", dict(feats, flavour=op["flavour"]), "two randsphere calls with equally seeded real generators differ")


# ------------------------------------------------------------------ sampler

def _density(op):
    g = np.random.Generator(np.random.PCG64(op["gseed"]))
    m = op["m"]
    if m > 2000:
        # a finely tabulated density: an (almost) even grid of m points, every point kept
        t = np.linspace(0.0, 1.0, m) + g.uniform(-0.3, 0.3, m) / m
        t.sort()
        t[0], t[-1] = 0.0, 1.0
        keep = np.ones(m, dtype=bool)
    else:
        t = np.sort(g.uniform(0, 1, m))
        t[0], t[-1] = 0.0, 1.0
        keep = np.concatenate(([True], np.diff(t) > 1e-3))
    t = t[keep]
    if t.size < 3:
        t = np.array([0.0, 0.4, 1.0])
    t[-1] = 1.0
    x = op["x0"] + op["w"] * t
    kind = op["dens"]
    if kind == "flat":
        f = lambda tt: 1.0 + 0.0 * tt                       # noqa: E731
    elif kind == "gauss":
        f = lambda tt: np.exp(-0.5 * ((tt - 0.5) / 0.2) ** 2) + 1e-3   # noqa: E731
    elif kind == "power":
        f = lambda tt: (tt + 0.05) ** 2.5                   # noqa: E731
    elif kind == "steep":
        f = lambda tt: np.exp(-8.0 * tt) + 1e-4             # noqa: E731
    elif kind == "fartail":
        # positive everywhere, but the tails are so far out that the normalised cumulative table has
        # runs of exactly equal values (0-plateau at the start, 1.0-plateau at the end)
        f = lambda tt: np.exp(-0.5 * ((tt - 0.45) / 0.03) ** 2)         # noqa: E731
    elif kind == "gap":
        # two lines with a faint (positive) continuum between them: the running integral stalls in the middle -- a run of
        # exactly equal cumulative values away from both ends -- and then rises abruptly
        f = lambda tt: np.exp(-0.5 * ((tt - 0.2) / 0.02) ** 2) + 0.7 * np.exp(-0.5 * ((tt - 0.8) / 0.02) ** 2)   # noqa: E731
    else:
        rough = g.uniform(0.05, 1.0, 64)
        f = lambda tt: np.interp(tt, np.linspace(0, 1, 64), rough)     # noqa: E731
    x0, wd = op["x0"], op["w"]

    def pofx(xx):
        return f((np.asarray(xx, dtype="f8") - x0) / wd)
    return x, pofx


class _SharedDensity(object):
    """ONE density object per run whose parameters the caller changes between the samplers it builds from it
    (`model.pdf` after a fit was updated): the bound method handed to the sampler is the 'same function' each time"""

    def __init__(self):
        self.f = None

    def pofx(self, xx):
        return self.f(xx)


def do_sampler(run, op):
    from esutil import random as erandom
    judge = run.prop == "C19"
    c15 = run.prop == "C15"
    x, pofx = _density(op)
    p = pofx(x)
    n = op["n"]
    # reference cumulative table (trapezoid rule), independent of scipy
    if op["cumulative"]:
        cum = np.concatenate(([0.0], np.cumsum(0.5 * (p[1:] + p[:-1]) * np.diff(x))))
        cum = cum + 0.05 * cum[-1]          # a cumulative table the caller supplies; first value > 0
        table = cum
        xv, pc = x, cum / cum[-1]
    else:
        cum = np.cumsum(0.5 * (p[1:] + p[:-1]) * np.diff(x))
        table = p
        xv, pc = x[1:], cum / cum[-1]
    rng = _mk_rng(op, targets=pc, closed=True)
    feats = {"call": "sampler", "func": op["func"], "cumulative": op["cumulative"]}
    st = "sampler|%s|func=%s|cum=%s|edge=%s" % (op["flavour"], op["func"], op["cumulative"], op["edge"] > 0)
    run.states.add(st)
    guards = []
    try:
        if op["func"]:
            if op["cumulative"]:
                tx, tc = x.copy(), table.copy()

                def fn(xx):
                    return np.interp(xx, tx, tc)
            else:
                fn = pofx
                if op.get("shared"):
                    holder = getattr(run, "_shared_density", None)
                    if holder is None:
                        holder = run._shared_density = _SharedDensity()
                    else:
                        run.fault("same_density_object_with_changed_parameters")
                    holder.f = pofx
                    fn = holder.pofx
            if op["via_xrange"] and not op["cumulative"]:
                # the grid is generated by the sampler: use the same linspace for the reference
                x = np.linspace(x[0], x[-1], x.size)
                p = pofx(x)
                cum = np.cumsum(0.5 * (p[1:] + p[:-1]) * np.diff(x))
                xv, pc = x[1:], cum / cum[-1]
                rng = _mk_rng(op, targets=pc, closed=True)
                gen = erandom.Generator(fn, xrange=[x[0], x[-1]], nx=x.size, rng=rng, cumulative=op["cumulative"])
            else:
                gen = erandom.Generator(fn, x=x, rng=rng, cumulative=op["cumulative"])
        else:
            ax, ap = x, table
            if c15:
                ax, gx = present.make(x, op.get("px"))
                ap, gp = present.make(table, op.get("pp"))
                guards = [("x", gx), ("pofx", gp)]
            gen = erandom.Generator(ap, ax, rng=rng, cumulative=op["cumulative"])
        got = gen.sample(n) if n is not None else gen.sample()
    except Exception as e:
        run.event(0, "sampler", sdigest(op), "error(%s)" % type(e).__name__)
        if judge:
            run.fail("rng.sampler.raises", feats, "Generator(...).sample(%r) raised %r" % (n, e))
        return
    _edges(run, rng)
    run._outputs.append(got)
    run.event(0, "sampler", sdigest(op), "ok", adigest(got))
    for nm, g_ in guards:
        run.checks += 1
        run.nontrivial = True
        bad = present.changed(g_, run)
        if bad:
            run.fail("own.rng.sampler", {"call": "Generator", "arg": nm, "present": g_["kind"]},
                     "random.Generator modified its %s argument (%s): %s" % (nm, g_["kind"], bad))
    if not judge:
        return
    run.checks += 1
    u = None
    for meth, note, vals in rng.log:
        if meth in ("uniform", "random"):
            u = vals
            break
    if u is None:
        run.fail("rng.sampler.source", feats, "the sampler drew no uniform deviates from the source it was given")
        return
    nn = 1 if n is None else n
    g = np.atleast_1d(np.asarray(got, dtype="f8"))
    if n is None and np.ndim(got) != 0:
        run.fail("rng.sampler.count", feats, "sample() returned shape %r, expected a scalar" % (np.shape(got),))
        return
    if g.shape != (nn,) or u.shape != (nn,):
        run.fail("rng.sampler.count", feats, "sample(%r) returned shape %r (drew %r deviates)" % (n, g.shape, u.shape))
        return
    # reference: linear interpolation of the grid abscissae against the cumulative table.  Where the table
    # has a run of exactly equal values (far tails) and u equals that value, every abscissa of the run is
    # an acceptable answer ("grid points are returned where u equals their cumulative value").
    width = x[-1] - x[0]
    jl = np.searchsorted(pc, u, side="left")
    jr = np.searchsorted(pc, u, side="right")
    onrun = jr > jl                               # u equals pc[jl..jr-1]
    lo = np.empty(nn)
    hi = np.empty(nn)
    loc = np.zeros(nn)
    for t in range(nn):
        if onrun[t]:
            lo[t], hi[t] = xv[jl[t]], xv[jr[t] - 1]
            for jj in (jl[t] - 1, jr[t] - 1):
                if 0 <= jj < pc.size - 1 and pc[jj + 1] > pc[jj]:
                    loc[t] = max(loc[t], (xv[jj + 1] - xv[jj]) / (pc[jj + 1] - pc[jj]))
        elif jl[t] == 0 or jl[t] >= pc.size:
            lo[t] = hi[t] = np.nan                # below the first / above the last tabulated value
        else:
            a, b = jl[t] - 1, jl[t]
            sl = (xv[b] - xv[a]) / (pc[b] - pc[a])
            lo[t] = hi[t] = xv[a] + (u[t] - pc[a]) * sl
            loc[t] = sl
    tol = 1e-12 * width + 64 * np.finfo("f8").eps * loc + 1e-12 * abs(op["x0"])
    # "grid points are returned exactly where u equals their cumulative value": for a deviate that IS a tabulated
    # cumulative value the interpolation formula reproduces the grid point to a few ulps of the point and of the
    # adjacent interval, however steep the inverse distribution is there (faint tails: dx/dp ~ 1e13)
    exact = onrun & (jr - jl == 1)
    for t in np.nonzero(exact)[0]:
        j = int(jl[t])
        dv = abs(xv[j] - xv[j - 1]) if j > 0 else abs(xv[1] - xv[0])
        tol[t] = 64 * np.finfo("f8").eps * (abs(xv[j]) + dv) + 1e-300
        run.probe("deviate_equal_to_a_tabulated_cumulative_value")
    inside = (u >= pc[0]) & (u <= pc[-1])
    # a table that STARTS with a run of equal values has no interval to interpolate in for u equal to that value
    # (same situation as the single-entry table of a 2-point grid): left unconstrained
    degenerate = onrun & (jl == 0) & (jr - jl > 1)
    if degenerate.any():
        run.probe("deviate_on_a_leading_run_unconstrained")
        inside = inside & ~degenerate
    with np.errstate(invalid="ignore"):
        err = np.where(g < lo, lo - g, np.where(g > hi, g - hi, 0.0))
        err = np.where(np.isfinite(g), err, np.inf)
    if np.any(onrun & (jr - jl > 1)):
        run.probe("deviate_on_a_run_of_equal_cumulative_values")
    if np.any(u == 1.0):
        run.probe("deviate_exactly_one")
    if inside.any():
        run.margin("rng.sampler.value", float(np.max((err / tol)[inside & np.isfinite(err)], initial=0.0)))
    w = np.nonzero(inside & ~(err <= tol))[0]
    if w.size:
        i = int(w[0])
        run.fail("rng.sampler.value", dict(feats, u="one" if u[i] == 1.0 else ("run" if onrun[i] and jr[i] - jl[i] > 1 else "any")),
                 "deviate u=%r maps to %r, the interpolation of the grid against the trapezoid CDF gives %s (grid of %d points on [%r,%r])"
                 % (u[i], g[i], ("%r" % lo[i]) if lo[i] == hi[i] else "a value in [%r, %r]" % (lo[i], hi[i]), x.size, x[0], x[-1]))
        return
    if np.any(inside & ((g < x[0] - tol) | (g > x[-1] + tol))):
        run.fail("rng.sampler.range", feats, "a sample for u >= first cumulative value lies outside the grid")
        return
    o = np.argsort(u, kind="stable")
    o = o[inside[o]]
    same_u = np.diff(u[o]) == 0
    # non-decreasing in u (equal deviates on a run of equal table values may legally land anywhere on the run)
    if np.any((np.diff(g[o]) < -2 * tol[o][1:]) & ~same_u):
        run.fail("rng.sampler.monotone", feats, "the map u -> x is not non-decreasing")
        return
    # reproducibility
    run.checks += 1
    try:
        if op["func"]:
            return
        s1 = erandom.Generator(table, x, rng=_real_rng(op), cumulative=op["cumulative"]).sample(nn)
        s2 = erandom.Generator(table, x, rng=_real_rng(op), cumulative=op["cumulative"]).sample(nn)
    except Exception as e:
        run.fail("rng.sampler.real", dict(feats, flavour=op["flavour"]), "sampler with a real %s generator raised %r" % (op["flavour"], e))
        return
    if not _same(s1, s2) or np.asarray(s1).shape != (nn,):
        run.fail("rng.sampler.repro", dict(feats, flavour=op["flavour"]), "equally seeded real generators give different samples")


# ------------------------------------------------------------------ cholesky

def do_cholesky(run, op):
    from esutil import random as erandom
    judge = run.prop == "C19"
    c15 = run.prop == "C15"
    d, n = op["d"], op["n"]
    g = np.random.Generator(np.random.PCG64(op["cseed"]))
    A = g.normal(size=(d, d + 2))
    cov = (A @ A.T + 0.05 * np.eye(d)) * op["scale"]
    if op.get("axscale"):
        D = 10.0 ** np.array((list(op["axscale"]) + [0.0] * d)[:d])
        cov = cov * D[:, None] * D[None, :]
    cov = 0.5 * (cov + cov.T)
    mean = g.normal(size=d) * 10
    src = SimRNG(op["seed"], "legacy", op["edge"])
    calls = []

    def dist(k):
        z = src.standard_normal(k)
        calls.append(np.array(z, copy=True))
        return z
    feats = {"call": "cholesky", "api": op["api"]}
    run.states.add("cholesky|%s|d=%d|edge=%s" % (op["api"], d, op["edge"] > 0))
    nn = 1 if n is None else n
    ac, am = cov, mean
    guards = []
    if c15:
        ac, gc = present.make(cov, op.get("pc"))
        am, gm = present.make(mean, op.get("pm"))
        guards = [("cov", gc), ("mean", gm)]
    try:
        if op["api"] == "class":
            cs = erandom.CholeskySampler(am, ac, dist=dist)
            got = cs.sample(n) if n is not None else cs.sample()
            use_mean = True
        elif op["api"] == "func":
            got = erandom.cholesky_sample(ac, nn, means=am, dist=dist)
            use_mean = True
        else:
            got = erandom.cholesky_sample(ac, nn, dist=dist)
            use_mean = False
    except Exception as e:
        run.event(0, "cholesky", sdigest(op), "error(%s)" % type(e).__name__)
        if judge:
            run.fail("rng.chol.raises", feats, "Cholesky sampling (%s, d=%d, n=%r) raised %r" % (op["api"], d, n, e))
        return
    _edges(run, src)
    run._outputs.append(got)
    run.event(0, "cholesky", sdigest(op), "ok", adigest(np.asarray(got)))
    for nm, g_ in guards:
        run.checks += 1
        run.nontrivial = True
        bad = present.changed(g_, run)
        if bad:
            run.fail("own.rng.cholesky", {"call": op["api"], "arg": nm, "present": g_["kind"]},
                     "Cholesky sampling modified its %s argument (%s): %s" % (nm, g_["kind"], bad))
    if not judge:
        return
    mean0 = mean.copy()
    cov0 = cov.copy()

    def judge_draw(got, n_, which):
        run.checks += 1
        nn_ = 1 if n_ is None else n_
        got = np.asarray(got, dtype="f8")
        ff = dict(feats, draw=which)
        if op["api"] == "class" and n_ is None:
            if got.shape != (d,):
                run.fail("rng.chol.count", ff, "sample() returned shape %r, expected (%d,)" % (got.shape, d))
                return False
            got = got.reshape(1, d)
        if got.shape != (nn_, d):
            run.fail("rng.chol.count", ff, "returned shape %r, expected (%d,%d)" % (got.shape, nn_, d))
            return False
        if len(calls) != 1 or calls[0].size != d * nn_:
            run.fail("rng.chol.source", ff, "dist was called %d times for %r deviates, expected one call for %d"
                     % (len(calls), [c.size for c in calls], d * nn_))
            return False
        Lr = _cholesky(cov0)
        z = calls[0].reshape(d, nn_)
        ref = (Lr @ z).T + (mean0[None, :] if use_mean else 0.0)
        scale = (np.abs(Lr) @ np.abs(z)).T + (np.abs(mean0)[None, :] if use_mean else 0.0)
        # two correct Cholesky factorisations agree to about eps * cond(correlation matrix) relative to |L||z|
        # (the factorisation is invariant under scaling of the axes, so the condition number of the matrix scaled to
        # unit diagonal is the one that counts)
        sd = np.sqrt(np.diag(cov0))
        kappa = float(np.linalg.cond(cov0 / sd[:, None] / sd[None, :])) if d > 1 else 1.0
        # ... and the error of an entry of L is relative to the norm of its ROW, not to the entry itself (a small
        # off-diagonal entry next to large ones carries a large relative error)
        rown = np.sqrt(np.sum(Lr * Lr, axis=1))
        scale = np.maximum(scale, (np.max(np.abs(z), axis=0)[:, None] * rown[None, :])
                           + (np.abs(mean0)[None, :] if use_mean else 0.0))
        tol = max(1e-12, 64 * np.finfo("f8").eps * kappa) * scale + 1e-300
        err = np.abs(got - ref)
        run.margin("rng.chol.value", float(np.max(err / tol)))
        if np.any(err > tol):
            i_, k_ = np.argwhere(err > tol)[0]
            run.fail("rng.chol.value", ff, "%s: sample %d component %d is %r, mean + L z gives %r (L lower-triangular, L L^T = cov)"
                     % (which, i_, k_, got[i_, k_], ref[i_, k_]))
            return False
        return True

    if not judge_draw(got, n, "first draw"):
        return
    kept = Held()
    kept.hold(got)
    # further draws from the SAME sampler object: each is mean + L z for the deviates of that draw
    if op["api"] == "class":
        if op.get("more") and not c15:
            # the caller built the sampler from scratch arrays which it now refills (for the next sampler): the sampler
            # it already has was made from the OLD mean and covariance
            mean[...] = 99.0
            cov[...] = np.eye(d) * 7.0
            run.fault("caller_refilled_mean_and_covariance_after_construction")
        for t, n_more in enumerate(op.get("more", [])):
            del calls[:]
            run.fault("sampler_object_drawn_from_again")
            try:
                g2 = cs.sample(n_more) if n_more is not None else cs.sample()
            except Exception as e:
                run.fail("rng.chol.raises", feats, "draw #%d from the same CholeskySampler raised %r" % (t + 2, e))
                return
            run.event(0, "cholesky_more", "%r" % (n_more,), "ok", adigest(np.asarray(g2)))
            # what the earlier draws returned is still in the caller's hands: a later draw must not have changed it
            if kept.changed() is not None:
                run.fail("rng.result_overwritten", dict(feats, draw=t + 2),
                         "draw #%d from the same CholeskySampler changed the array an earlier draw had returned" % (t + 2))
                return
            ok = judge_draw(g2, n_more, "draw #%d from the same sampler" % (t + 2))
            kept.hold(g2)
            run._outputs.append(g2)
            if not ok:
                return


def _cholesky(a):
    """own lower-triangular factor (Cholesky-Banachiewicz), a = L L^T"""
    n = a.shape[0]
    L = np.zeros_like(a)
    for i in range(n):
        for j in range(i + 1):
            s = a[i, j] - np.dot(L[i, :j], L[j, :j])
            L[i, j] = math.sqrt(s) if i == j else s / L[j, j]
    return L


# ------------------------------------------------------------------ indices

def do_indices(run, op):
    from esutil import random as erandom
    judge = run.prop == "C19"
    imax, nr, unique = op["imax"], op["nrand"], op["unique"]
    feats = {"call": "random_indices", "unique": unique, "how": op["how"]}
    run.states.add("indices|%s|unique=%s" % (op["how"], unique))
    if imax >= 2 ** 31 - 1:
        run.fault("index_range_beyond_4_byte_integers")
    rng = None
    try:
        if op["how"] == "rng":
            rng = _mk_rng(op)
            got = erandom.random_indices(imax, nr, unique=unique, rng=rng)
        elif op["how"] == "real":
            got = erandom.random_indices(imax, nr, unique=unique, rng=_real_rng(op))
        else:
            got = erandom.random_indices(imax, nr, unique=unique, seed=op["seed"])
    except Exception as e:
        run.event(0, "indices", sdigest(op), "error(%s)" % type(e).__name__)
        if judge:
            run.fail("rng.indices.raises", feats, "random_indices(%d, %d, unique=%r) raised %r" % (imax, nr, unique, e))
        return
    if rng is not None:
        _edges(run, rng)
    run.event(0, "indices", sdigest(op), "ok", adigest(np.asarray(got)))
    if not judge:
        return
    run.checks += 1
    g = np.asarray(got)
    if g.shape != (nr,):
        run.fail("rng.indices.count", feats, "random_indices(%d, %d) returned shape %r" % (imax, nr, g.shape))
        return
    if nr and (g.dtype.kind not in "iu" or g.min() < 0 or g.max() >= imax):
        run.fail("rng.indices.range", feats, "indices outside [0,%d): %r" % (imax, g[:10]))
        return
    if unique and np.unique(g).size != nr:
        run.fail("rng.indices.unique", feats, "unique=True but indices repeat: %r" % (g[:20],))
        return
    if op["how"] in ("real", "seed"):
        if op["how"] == "real":
            g2 = erandom.random_indices(imax, nr, unique=unique, rng=_real_rng(op))
        else:
            g2 = erandom.random_indices(imax, nr, unique=unique, seed=op["seed"])
        if not _same(g, g2):
            run.fail("rng.indices.repro", feats, "equal seeds give different indices")


def simplify(script):
    ops = script["ops"]
    for i, op in enumerate(ops):
        for key, val in (("edge", 0.0), ("n", 1), ("n", 2), ("dorot", False), ("get_radius", False), ("system", "eq"),
                         ("cumulative", False), ("func", False), ("dens", "flat"), ("m", 3), ("d", 1), ("api", "class"),
                         ("flavour", "legacy"), ("x0", 0.0), ("w", 1.0), ("scale", 1.0)):
            if key in op and op[key] != val and not (key == "n" and (op[key] is None or op[key] <= val)):
                c = dict(script)
                c["ops"] = ops[:i] + [dict(op, **{key: val})] + ops[i + 1:]
                yield c
