"""
quadsim -- call histories on one QGauss / QGauss2 object (C17, part of C15).

Simulator-owned: the order and arguments of the calls that one long-lived object sees, the
point count cached by earlier calls, integrands that raise half-way, requests that are
rejected.  Oracles: independent Gauss-Legendre rule (numpy leggauss), re-implemented affine
map + weighted sum, fresh-object-per-call model (bit equality).
"""
import math

import numpy as np
from numpy.polynomial import legendre as L

from ..kernel import chance, pick, wpick, adigest, sdigest, Precondition, scribble, Held
from .. import present

REAL = ["esutil.integrate.QGauss/QGauss2/qgauss/gauleg (Python + _cgauleg C)", "esutil.stat.interplin"]
STUB = []

_lg_cache = {}
BIG_N = [201, 255, 256, 257, 300, 333, 400, 499, 511, 512, 513, 640, 777, 1000, 1001, 1023, 1024, 1025, 1250, 1500, 1999,
         2000]


def gl_newton(n):
    """Own reference rule on [-1,1]: Newton iteration on P_n to machine precision, vectorised
    over the nodes, weights from the derivative AT the converged node.  Validated against
    numpy's eigenvalue-based leggauss by `./vf selftest refs`."""
    i = np.arange(1, n + 1, dtype="f8")
    z = np.cos(np.pi * (i - 0.25) / (n + 0.5))

    def pn(z):
        p1 = np.ones_like(z)
        p2 = np.zeros_like(z)
        for j in range(1, n + 1):
            p3 = p2
            p2 = p1
            p1 = ((2.0 * j - 1.0) * z * p2 - (j - 1.0) * p3) / j
        pp = n * (z * p1 - p2) / (z * z - 1.0)
        return p1, pp

    for _ in range(60):
        p1, pp = pn(z)
        dz = p1 / pp
        z = z - dz
        if np.max(np.abs(dz)) < 4e-16:
            break
    _, pp = pn(z)
    w = 2.0 / ((1.0 - z * z) * pp * pp)
    x = -z
    # enforce exact symmetry of the reference
    x = 0.5 * (x - x[::-1])
    w = 0.5 * (w + w[::-1])
    return x, w


def leggauss(n):
    r = _lg_cache.get(n)
    if r is None:
        r = _lg_cache[n] = L.leggauss(n) if n <= 48 else gl_newton(n)
    return r


# ------------------------------------------------------------------ integrand families

def make_g(spec):
    """g: [-1,1] -> R, O(1) Lipschitz; returned as a plain python function."""
    kind = spec["kind"]
    if kind == "cheb":
        c = np.array(spec["c"], dtype="f8")

        def g(t):
            return np.polynomial.chebyshev.chebval(t, c)
    elif kind == "sin":
        k, p, a = spec["k"], spec["p"], spec["a"]

        def g(t):
            return a * np.sin(k * t + p)
    elif kind == "exp":
        k, a = spec["k"], spec["a"]

        def g(t):
            return a * np.exp(k * t)
    elif kind == "rat":
        k, a = spec["k"], spec["a"]

        def g(t):
            return a / (1.0 + k * t * t)
    elif kind == "const":
        a = spec["a"]

        def g(t):
            return a + 0.0 * t
    else:
        raise ValueError(kind)
    return g


def make_f(spec, c, h):
    g = make_g(spec)

    def f(x):
        return g((x - c) / h)
    return f


def draw_g(r):
    kind = wpick(r, [("cheb", 4), ("sin", 2), ("exp", 2), ("rat", 1), ("const", 1)])
    if kind == "cheb":
        deg = r.randrange(0, 12)
        return {"kind": "cheb", "c": [round(r.uniform(-1, 1), 6) for _ in range(deg + 1)]}
    if kind == "sin":
        return {"kind": "sin", "k": round(r.uniform(0.1, 6.0), 4), "p": round(r.uniform(0, 6.3), 4),
                "a": round(r.uniform(-3, 3), 4)}
    if kind == "exp":
        return {"kind": "exp", "k": round(r.uniform(-3, 3), 4), "a": round(r.uniform(-3, 3), 4)}
    if kind == "rat":
        return {"kind": "rat", "k": round(r.uniform(0, 8), 4), "a": round(r.uniform(-3, 3), 4)}
    return {"kind": "const", "a": round(r.uniform(-3, 3), 4)}


def draw_interval(r):
    """(c, h): centre and half width; a = c-h, b = c+h (or swapped)."""
    e = wpick(r, [((-2, 2), 6), ((-12, -2), 2), ((2, 12), 2)])
    h = 10.0 ** r.uniform(*e)
    if chance(r, 0.06):
        return 0.0, 1.0              # exactly [-1, 1]: the interval on which the rule itself is tabulated
    ck = wpick(r, [("zero", 3), ("near", 4), ("far", 2), ("neg", 2)])
    if ck == "zero":
        c = 0.0
    elif ck == "near":
        c = h * r.uniform(-3, 3)
    elif ck == "far":
        c = h * r.uniform(100, 1000) * (1 if chance(r, 0.5) else -1)
    else:
        c = -h * r.uniform(1, 20)
    return float(c), float(h)


def draw_npts(r, big_ok=True):
    k = wpick(r, [("tiny", 3), ("small", 5), ("mid", 3), ("big", 1 if big_ok else 0)])
    if k == "tiny":
        return r.randrange(1, 5)
    if k == "small":
        if chance(r, 0.15):
            return pick(r, [7, 8, 9, 15, 16, 17, 31, 32, 33, 63, 64, 65, 127, 128, 129])
        return r.randrange(2, 41)
    if k == "mid":
        return r.randrange(41, 201)
    return pick(r, BIG_N)


# ------------------------------------------------------------------ plan

def plan(S, prop, mode, tier, avoid):
    r = S.py("config")
    avoid_feats = [e.get("features", {}) for e in avoid]
    no_n1 = any(f.get("npts") == 1 for f in avoid_feats)
    no_q2_rect = any(f.get("q2") == "nx!=ny" for f in avoid_feats)

    def npts():
        n = draw_npts(r)
        while no_n1 and n == 1:
            n = draw_npts(r)
        return n

    cfg = {"ctor_npts": npts() if chance(r, 0.5) else None,
           "ctor_style": pick(r, ["QGauss", "QGauss"])}
    if chance(r, 0.35):
        nx = r.randrange(1 if not no_n1 else 2, 25)
        ny = nx if (chance(r, 0.4) or no_q2_rect) else r.randrange(1 if not no_n1 else 2, 25)
        cfg["q2"] = [nx, ny]
        if chance(r, 0.04) and not no_q2_rect:
            # a fine two-dimensional grid: a few hundred thousand points (grids this size are where an implementation
            # starts to work in blocks)
            cfg["q2"] = list(pick(r, [(512, 512), (513, 512), (600, 500), (2000, 150), (150, 2000), (1024, 300), (257, 1025)]))
    nops = r.randrange(2, 13)
    if tier == "thorough" and chance(r, 0.12):
        nops = r.randrange(13, 40)          # thorough tier: longer histories
    ops = []
    explicit_seen = False
    last_npts = None
    follow = None
    c15 = (prop == "C15")
    for _ in range(nops):
        k = wpick(r, [("func", 6), ("data", 5), ("rule", 3), ("poly", 3), ("func_raises", 1.2),
                      ("bad_npts", 0.8), ("bad_range", 0.8), ("func2", 2 if "q2" in cfg else 0),
                      ("qgauss", 0.7), ("selftest", 0.5)])
        op = {"k": k}
        if k == "selftest":
            # the object's own demonstration methods (test_gauss_func / test_gauss_data): ordinary calls on the same
            # object, with a point count of their own
            op.update({"which": pick(r, ["func", "data"]), "npts": npts()})
            explicit_seen = True
            last_npts = op["npts"]
            follow = None
        if k in ("func", "data", "func_raises", "bad_range", "qgauss"):
            # npts: explicit (changing or repeated) or omitted while nothing explicit was passed
            can_omit = (cfg["ctor_npts"] is not None) and not explicit_seen and k != "qgauss"
            if can_omit and chance(r, 0.4):
                op["npts"] = None
            else:
                if follow is not None and chance(r, 0.7):
                    op["npts"] = follow
                elif last_npts is not None and chance(r, 0.25):
                    op["npts"] = last_npts
                else:
                    op["npts"] = npts()
                follow = None
                explicit_seen = True
                last_npts = op["npts"]
        if k in ("func", "func_raises", "bad_range"):
            c, h = draw_interval(r)
            op.update({"c": c, "h": h, "g": draw_g(r), "rev": chance(r, 0.15),
                       "rk": pick(r, ["list", "tuple", "array"])})
            if k == "func" and chance(r, 0.08):
                op["nty"] = pick(r, ["i8", "i4", "u2"])
            if k == "func" and chance(r, 0.12):
                op["reenter"] = True
            elif k == "func" and chance(r, 0.14):
                # an integrand that KEEPS the array it returns (a memoised function, a precomputed table): the same
                # array object is handed back whenever the same abscissae are asked for again
                op["memo"] = True
                prevm = [o for o in ops if o.get("memo")]
                if prevm and chance(r, 0.65):
                    q = prevm[-1]
                    op.update({"c": q["c"], "h": q["h"], "g": q["g"], "rev": q["rev"], "npts": q["npts"]})
                    last_npts = op["npts"] if op["npts"] is not None else last_npts
        elif k in ("data", "qgauss"):
            c, h = draw_interval(r)
            m = r.randrange(2, 40)
            op.update({"c": c, "h": h, "m": m, "g": draw_g(r), "noise": chance(r, 0.3),
                       "dseed": r.randrange(1 << 30), "even": chance(r, 0.25),
                       # (float32 abscissae are not generated: esutil then works in single precision, and the statement
                       # gives no accuracy for the data integrator that would say whether 6e-8 relative is wrong)
                       "xdt": wpick(r, [("f8", 7), ("i8", 1), ("i4", 0.7)])})
            prev = [o for o in ops if o["k"] == "data"]
            if k == "data" and prev and chance(r, 0.4):
                # a sibling of the previous table: same length, same end points, same npts -- other abscissae inside
                # (many y tables on "the same" x range is the ordinary way one integrator object is reused)
                q = prev[-1]
                op.update({"c": q["c"], "h": q["h"], "m": q["m"], "npts": q["npts"], "sibling": True})
            if c15:
                op["px"] = present.draw(r, "f8")
                op["py"] = present.draw(r, "f8")
            elif k == "data" and not op.get("sibling") and chance(r, 0.12):
                op["tabcol"] = True
                prevt = [o for o in ops if o.get("tabcol")]
                if prevt and chance(r, 0.65):
                    q = prevt[-1]
                    op.update({kk: q[kk] for kk in ("dseed", "m", "c", "h", "g", "even", "noise", "xdt")})
        elif k == "bad_npts":
            op["npts"] = pick(r, [0, -1, -7])
            if chance(r, 0.5):
                # a point count of the wrong TYPE (a float): rejected -- and numerically equal to a count that a
                # later, valid call may ask for
                nn = npts()
                op["npts"] = float(nn)
                follow = nn
            c, h = draw_interval(r)
            op.update({"c": c, "h": h, "g": draw_g(r)})
            explicit_seen = True
        elif k == "rule":
            c, h = draw_interval(r)
            op.update({"c": c, "h": h, "n": npts(), "rev": chance(r, 0.15),
                       "ety": wpick(r, [("py", 5), ("f8", 1), ("f4", 1.5)])})
        elif k == "poly":
            c, h = draw_interval(r)
            n = r.randrange(1 if not no_n1 else 2, 31)
            deg = r.randrange(0, 2 * n)
            basis = pick(r, ["leg", "mono"])
            op.update({"c": c, "h": h, "n": n, "rev": chance(r, 0.1), "basis": basis,
                       "coef": [round(r.uniform(-1, 1), 6) for _ in range(deg + 1)]})
        elif k == "func2":
            cx, hx = draw_interval(r)
            cy, hy = draw_interval(r)
            op.update({"cx": cx, "hx": hx, "cy": cy, "hy": hy, "gx": draw_g(r), "gy": draw_g(r),
                       "cross": round(r.uniform(-1, 1), 3)})
            if chance(r, 0.3):
                op["rbuf"] = True
            sty = wpick(r, [("expr", 7), ("inplace", 1.5), ("pointwise", 1.5)])
            if sty == "pointwise" and cfg["q2"][0] * cfg["q2"][1] > 700:
                sty = "inplace"
            if sty != "expr":
                op["style"] = sty
        ops.append(op)
    return {"cfg": cfg, "ops": ops}


def describe(script):
    return {"cfg": script["cfg"], "ops": script["ops"]}


# ------------------------------------------------------------------ execute

def _data(op):
    g = np.random.Generator(np.random.PCG64(op["dseed"]))
    m = op["m"]
    t = np.sort(g.uniform(-1, 1, m))
    if op.get("even"):
        t = np.linspace(-1.0, 1.0, m)
    t[0], t[-1] = -1.0, 1.0
    # drop near-duplicates so that the interpolant's slope stays modest
    keep = np.concatenate(([True], np.diff(t) > 1e-4))
    t = t[keep]
    if t.size < 2:
        t = np.array([-1.0, 1.0])
    t[-1] = 1.0
    x = op["c"] + op["h"] * t
    xdt = op.get("xdt", "f8")
    if xdt in ("i8", "i4"):
        # an integer-typed abscissa column (pixel numbers, channel numbers), partly negative, evenly or unevenly spaced
        steps = np.ones(max(1, t.size - 1), dtype="i8") if op.get("even") else g.integers(1, 6, max(1, t.size - 1))
        xi = np.concatenate(([0], np.cumsum(steps)))[:max(2, t.size)]
        xi = xi - int(xi[-1] * g.uniform(0.2, 1.2))
        x = xi.astype(xdt)
        t = (xi - 0.5 * (xi[0] + xi[-1])) / (0.5 * (xi[-1] - xi[0]))
    elif xdt == "f4":
        x = x.astype("f4")
        if np.any(np.diff(x.astype("f8")) <= 0):
            x = (op["c"] + op["h"] * t)
        else:
            xf = x.astype("f8")
            t = (xf - 0.5 * (xf[0] + xf[-1])) / (0.5 * (xf[-1] - xf[0]))
    y = make_g(op["g"])(t)
    if op.get("noise"):
        y = y + g.normal(0, 0.3, t.size)
    return np.ascontiguousarray(x), np.ascontiguousarray(np.asarray(y, dtype="f8"))


_HELD = Held()


class Boom(Exception):
    pass


def _close(run, oid, got, ref, tol, feats, what):
    run.checks += 1
    if not (isinstance(got, (float, np.floating)) or np.ndim(got) == 0):
        run.fail(oid, feats, "%s: result is not a scalar: %r" % (what, type(got)))
        return
    got = float(got)
    run.margin(oid, abs(got - ref) / tol)
    if not (abs(got - ref) <= tol):
        run.fail(oid, feats, "%s: got %r, reference %r, |diff| %.3e > tol %.3e" %
                 (what, got, ref, abs(got - ref), tol))


def execute(script, run, env):
    from esutil import integrate
    cfg = script["cfg"]
    prop = run.prop
    judge = prop == "C17"
    c15 = prop == "C15"
    memo = {}
    tabs = {}
    q2rng = (np.empty(2), np.empty(2))      # the caller's own range arrays for QGauss2, refilled in place from call to call
    try:
        qg = integrate.QGauss(cfg["ctor_npts"]) if cfg["ctor_npts"] is not None else integrate.QGauss()
    except Exception as e:  # constructor with a valid npts must work
        if judge:
            run.fail("quad.ctor", {"npts": cfg["ctor_npts"]}, "QGauss(%r) raised %r" % (cfg["ctor_npts"], e))
        return
    q2 = None
    if "q2" in cfg:
        nx, ny = cfg["q2"]
        try:
            q2 = integrate.QGauss2(nx, ny)
        except Exception as e:
            if judge:
                run.fail("quad.q2.ctor", {"q2": "nx==ny" if nx == ny else "nx!=ny"},
                         "QGauss2(%d,%d) raised %r" % (nx, ny, e))
            q2 = None
    cur = cfg["ctor_npts"]          # model: the point count an omitted npts refers to
    explicit_seen = False           # an omitted npts is only judged while none was passed
    last_outcome = "new"
    ncalls = 0
    del _HELD.items[:]
    for i, op in enumerate(script["ops"]):
        run.step = i
        k = op["k"]
        if _HELD.items:
            _HELD.settle(run, "quad.result_overwritten", {})
            if run.failures:
                break
        if "npts" in op:
            if op["npts"] is None and explicit_seen:
                run.event(0, k, "", "skipped")
                continue
            if op["npts"] is not None:
                explicit_seen = True
        st = "npts=%s|last=%s|ctor=%s" % (_ncls(cur), last_outcome, cfg["ctor_npts"] is not None)
        run.states.add(st)
        rel = "na"
        if "npts" in op and k != "bad_npts":
            rel = "omitted" if op["npts"] is None else ("same" if op["npts"] == cur else "different")
        elif k == "bad_npts":
            rel = "invalid"
        run.trans.add(st + "|" + k + "|" + rel)
        if ncalls > 0 and rel == "different":
            run.fault("npts_changed_on_live_object")
            run.nontrivial = True
        if ncalls > 0 and last_outcome in ("raised", "rejected"):
            run.fault("call_after_aborted_call")
            run.nontrivial = True

        if k in ("func", "func_raises", "bad_range", "bad_npts"):
            c, h = op["c"], op["h"]
            a, b = (c + h, c - h) if op.get("rev") else (c - h, c + h)
            f = make_f(op["g"], c, h)
            n_eff = op["npts"] if op["npts"] is not None else cur
            if k == "func_raises":
                def fr(x, _f=f):
                    _f(x)
                    raise Boom("integrand failed")
                try:
                    qg.integrate([a, b], fr, npts=op["npts"])
                    out = "ok?"
                except Boom:
                    out = "raised"
                    run.fault("integrand_raised")
                except Exception as e:
                    out = "rejected(%s)" % type(e).__name__
                if op["npts"] is not None:
                    cur = op["npts"]
                last_outcome = "raised"
                run.event(0, k, "%r" % ((a, b, op["npts"]),), out)
                ncalls += 1
                continue
            if k == "bad_range":
                try:
                    qg.integrate([a, 0.5 * (a + b), b], f, npts=op["npts"])
                    out = "ok?"
                except Exception as e:
                    out = "rejected"
                    run.fault("bad_range_rejected")
                if op["npts"] is not None:
                    cur = op["npts"]
                last_outcome = "rejected"
                run.event(0, k, "%r" % ((a, b, op["npts"]),), out)
                ncalls += 1
                continue
            if k == "bad_npts":
                try:
                    qg.integrate([a, b], f, npts=op["npts"])
                    out = "ok?"
                except Exception as e:
                    out = "rejected"
                    run.fault("bad_npts_rejected")
                last_outcome = "rejected"
                cur = "poisoned"     # every later call passes npts explicitly (plan guarantees)
                run.event(0, k, "%r" % ((a, b, op["npts"]),), out)
                ncalls += 1
                continue
            # ---- valid function integral
            if n_eff is None or n_eff == "poisoned":
                run.event(0, k, "", "skipped")
                continue
            rng_arg = {"list": [a, b], "tuple": (a, b), "array": np.array([a, b])}[op["rk"]]
            feats = {"kind": "func", "npts": n_eff if n_eff <= 2 else "n>2"}
            def f_call(x, _f=f):
                # an integrand may compute inside the array it was handed (x *= x): here it returns its value and
                # then overwrites the argument
                y = _f(x)
                if isinstance(x, np.ndarray) and x.flags.writeable and x.size:
                    try:
                        x[...] = np.nan
                    except Exception:
                        pass
                return y
            if op.get("reenter"):
                # an iterated integral written with ONE object: while the outer call evaluates its integrand, the
                # integrand asks the same object for an inner integral (same point count: npts omitted)
                run.fault("integrand_reenters_the_same_object")
                feats["reenter"] = True

                def f_call(x, _f=f, _qg=qg, _a=a, _b=b):
                    inner = _qg.integrate([_a, 0.5 * (_a + _b)], lambda t: np.cos(t) + 0.0 * t)
                    return _f(x) + 0.0 * inner
            if op.get("memo"):
                run.fault("integrand_returns_an_array_it_keeps")
                feats["memo"] = True

                def f_call(x, _f=f, _memo=memo, _id=repr((op["g"], c, h))):
                    key = (_id, np.asarray(x).tobytes())
                    y = _memo.get(key)
                    if y is None:
                        y = _memo[key] = np.asarray(_f(x), dtype="f8")
                    else:
                        run.fault("memoised_integrand_values_handed_out_again")
                    return y
            npts_arg = op["npts"]
            if op.get("nty") and npts_arg is not None:
                # the point count as a numpy integer (len() of something, an element of an integer array)
                npts_arg = {"i8": np.int64, "i4": np.int32, "u2": np.uint16}[op["nty"]](npts_arg)
                run.fault("point_count_given_as_a_numpy_integer")
            try:
                got = qg.integrate(rng_arg, f_call, npts=npts_arg)
            except Exception as e:
                if judge:
                    run.fail("quad.func.raises", feats, "integrate([%r,%r], f, npts=%r) raised %r" % (a, b, op["npts"], e))
                last_outcome = "raised"
                run.event(0, k, "%r" % ((a, b, op["npts"]),), "error(%s)" % type(e).__name__)
                if op["npts"] is not None:
                    cur = op["npts"]
                ncalls += 1
                continue
            if op["npts"] is not None:
                cur = op["npts"]
            ncalls += 1
            last_outcome = "ok"
            run.event(0, k, "%r" % ((a, b, op["npts"]),), "ok", adigest(got))
            if judge:
                _judge_func(run, integrate, a, b, f, n_eff, got, feats)
        elif k in ("data", "qgauss"):
            x, y = _data(op)
            if op.get("sibling"):
                run.fault("sibling_table_same_length_and_end_points")
            n_eff = op["npts"] if op["npts"] is not None else cur
            if n_eff is None or n_eff == "poisoned":
                run.event(0, k, "", "skipped")
                continue
            feats = {"kind": k, "npts": n_eff if n_eff <= 2 else "n>2"}
            if c15:
                ax, gx = present.make(x, op.get("px"))
                ay, gy = present.make(y, op.get("py"))
            elif op.get("tabcol"):
                # the table lives in a big-endian record array (a FITS table): its columns are handed over as views,
                # and the same table may be integrated again later (fresh views of the same parent)
                key = sdigest([op.get(k_) for k_ in ("dseed", "m", "c", "h", "g", "even", "noise", "xdt")])
                tab = tabs.get(key)
                if tab is None:
                    tab = tabs[key] = np.zeros(x.size, dtype=[("x", x.dtype.newbyteorder(">")), ("y", ">f8"), ("flag", "u1")])
                    tab["x"] = x
                    tab["y"] = y
                else:
                    run.fault("same_table_columns_integrated_again")
                run.fault("abscissae_and_ordinates_are_big_endian_table_columns")
                ax, ay = tab["x"], tab["y"]
            else:
                ax, ay = x, y
            try:
                if k == "qgauss":
                    got = integrate.qgauss(ax, ay, n_eff)
                else:
                    got = qg.integrate(ax, ay, npts=op["npts"])
            except Exception as e:
                if judge:
                    run.fail("quad.data.raises", feats, "integrate(x[%d], y, npts=%r) raised %r" % (x.size, op["npts"], e))
                run.event(0, k, "%d,%r" % (x.size, op["npts"]), "error(%s)" % type(e).__name__)
                if k == "data":
                    last_outcome = "raised"
                    if op["npts"] is not None:
                        cur = op["npts"]
                    ncalls += 1
                continue
            if c15:
                run.checks += 2
                for nm, g_ in (("x", gx), ("y", gy)):
                    bad = present.changed(g_, run)
                    if bad:
                        run.fail("own.quad.data", {"call": k, "arg": nm, "present": g_["kind"]},
                                 "QGauss data integration modified its %s argument (%s): %s" % (nm, g_["kind"], bad))
                run.nontrivial = True
            if k == "data":
                if op["npts"] is not None:
                    cur = op["npts"]
                ncalls += 1
                last_outcome = "ok"
            run.event(0, k, "%d,%r" % (x.size, op["npts"]), "ok", adigest(got))
            if judge:
                _judge_data(run, integrate, x, y, n_eff, got, feats, k)
        elif k == "selftest":
            import esutil.integrate.util as _iu
            import io as _io
            saved_out = _iu.stdout
            _iu.stdout = _io.StringIO()
            try:
                (qg.test_gauss_func if op["which"] == "func" else qg.test_gauss_data)(npts=op["npts"])
                out = "ok"
            except Exception as e:
                out = "error(%s)" % type(e).__name__
            finally:
                _iu.stdout = saved_out
            run.fault("object_ran_its_own_demonstration")
            cur = op["npts"]
            ncalls += 1
            last_outcome = "ok" if out == "ok" else "raised"
            run.event(0, k, "%s,%r" % (op["which"], op["npts"]), out)
        elif k == "rule":
            if not judge:
                continue
            c, h, n = op["c"], op["h"], op["n"]
            a, b = (c + h, c - h) if op.get("rev") else (c - h, c + h)
            ety = op.get("ety", "py")
            if ety == "f8":
                a, b = np.float64(a), np.float64(b)
            elif ety == "f4" and float(np.float32(a)) != float(np.float32(b)) and np.isfinite(np.float32(a)) and np.isfinite(np.float32(b)):
                # end points taken from a single-precision column: the interval IS the pair of float32 values
                a, b = np.float32(a), np.float32(b)
                run.fault("interval_end_points_of_type_float32")
            _judge_rule(run, integrate, a, b, n)
        elif k == "poly":
            if not judge:
                continue
            _judge_poly(run, integrate, op)
        elif k == "func2":
            if q2 is None:
                run.event(0, k, "", "skipped")
                continue
            _do_func2(run, integrate, q2, cfg["q2"], op, judge, q2rng)


def _ncls(n):
    if n is None:
        return "none"
    if n == "poisoned":
        return "poisoned"
    return "1" if n == 1 else ("small" if n <= 40 else ("mid" if n <= 200 else "big"))


def _scale(vals):
    m = float(np.max(np.abs(vals))) if np.size(vals) else 0.0
    return m


def _judge_func(run, integrate, a, b, f, n, got, feats):
    t, w = leggauss(n)
    f1 = (b - a) / 2.0
    f2 = (b + a) / 2.0
    fx = f(t * f1 + f2)
    ref = f1 * float(np.sum(w * fx))
    tol = 1e-9 * abs(b - a) * _scale(fx) + 1e-300
    _close(run, "quad.func.value", got, ref, tol, feats,
           "QGauss.integrate([%r,%r], f, npts=%d) on a reused object" % (a, b, n))
    # history independence: a fresh object asked the same thing answers bit-identically
    run.checks += 1
    fresh = integrate.QGauss(n).integrate([a, b], f)
    if not _same_float(fresh, got):
        run.fail("quad.func.history", feats,
                 "reused object returned %r, a fresh QGauss(%d) returns %r for [%r,%r]" % (got, n, fresh, a, b))


def _judge_data(run, integrate, x, y, n, got, feats, k):
    t, w = leggauss(n)
    a, b = float(x.min()), float(x.max())
    f1 = (b - a) / 2.0
    f2 = (b + a) / 2.0
    yi = np.interp(t * f1 + f2, x, y)
    ref = f1 * float(np.sum(w * yi))
    slope = float(np.max(np.abs(np.diff(y) / np.diff(x))))
    tol = 1e-9 * abs(b - a) * _scale(y) + 8 * np.finfo("f8").eps * max(abs(a), abs(b)) * slope * abs(b - a) + 1e-300
    _close(run, "quad.data.value", got, ref, tol, feats,
           "%s on %d tabulated points over [%r,%r], npts=%d" % (k, x.size, a, b, n))
    run.checks += 1
    fresh = integrate.QGauss(n).integrate(x, y)
    if not _same_float(fresh, got):
        run.fail("quad.data.history", feats,
                 "reused object returned %r, a fresh QGauss(%d) returns %r" % (got, n, fresh))


def _same_float(a, b):
    a = float(a)
    b = float(b)
    if math.isnan(a) and math.isnan(b):
        return True
    return a == b


def _judge_rule(run, integrate, a, b, n):
    feats = {"kind": "rule", "npts": n if n <= 2 else "n>2"}
    try:
        x, w = integrate.gauleg(a, b, n)
    except Exception as e:
        run.fail("quad.rule.raises", feats, "gauleg(%r,%r,%d) raised %r" % (a, b, n, e))
        return
    a, b = float(a), float(b)          # the reference works on the exact values of the end points
    run.event(0, "rule", "%r" % ((a, b, n),), "ok", adigest((x, w)))
    run.checks += 1
    W = abs(b - a)
    lo, hi = min(a, b), max(a, b)
    t, wr = leggauss(n)
    xm, xl = (a + b) / 2.0, (b - a) / 2.0
    xr = xm + xl * t
    wref = wr * xl
    msgs = []
    if x.shape != (n,) or w.shape != (n,):
        msgs.append("shapes %r %r" % (x.shape, w.shape))
    else:
        if not np.all(np.isfinite(x)) or not np.all(np.isfinite(w)):
            msgs.append("non-finite abscissae or weights: x=%r w=%r" % (x[:3], w[:3]))
        else:
            if not (np.all(x > lo) and np.all(x < hi)):
                msgs.append("abscissae not strictly inside the interval")
            d = np.diff(x)
            if n > 1 and not (np.all(d > 0) if b > a else np.all(d < 0)):
                msgs.append("abscissae not monotone from a to b")
            if np.max(np.abs((x + x[::-1]) / 2.0 - xm)) > 1e-13 * W + 4 * np.finfo("f8").eps * max(abs(a), abs(b)):
                msgs.append("abscissae not symmetric about the midpoint")
            if not (np.all(w * np.sign(xl) > 0)):
                msgs.append("weights do not all have the sign of b-a")
            if np.max(np.abs(w - w[::-1])) > 1e-13 * W:
                msgs.append("weights not symmetric")
            if abs(float(np.sum(w)) - (b - a)) > 1e-9 * W:
                msgs.append("weights sum to %r, b-a is %r" % (float(np.sum(w)), b - a))
            ex = np.max(np.abs(x - xr))
            run.margin("quad.rule.weightsum", abs(float(np.sum(w)) - (b - a)) / (1e-9 * W))
            run.margin("quad.rule.nodes", ex / (1e-13 * W + 4 * np.finfo("f8").eps * max(abs(a), abs(b))))
            run.margin("quad.rule.weights", np.max(np.abs(w - wref)) / (1e-9 * W))
            run.margin("quad.rule.symmetry", np.max(np.abs(w - w[::-1])) / (1e-13 * W))
            if ex > 1e-13 * W + 4 * np.finfo("f8").eps * max(abs(a), abs(b)):
                msgs.append("abscissae differ from leggauss by %.3e (b-a)" % (ex / W))
            ew = np.max(np.abs(w - wref))
            if ew > 1e-9 * W:
                msgs.append("weights differ from leggauss by %.3e (b-a)" % (ew / W))
    if msgs:
        run.fail("quad.rule", feats, "gauleg(%r,%r,%d): " % (a, b, n) + "; ".join(msgs))
    # the caller owns the rule it was handed and edits it; later rules and integrals must not care
    _HELD.hold((x, w))


def _judge_poly(run, integrate, op):
    c, h, n = op["c"], op["h"], op["n"]
    a, b = (c + h, c - h) if op.get("rev") else (c - h, c + h)
    feats = {"kind": "poly", "npts": n if n <= 2 else "n>2"}
    try:
        x, w = integrate.gauleg(a, b, n)
    except Exception as e:
        run.fail("quad.rule.raises", feats, "gauleg(%r,%r,%d) raised %r" % (a, b, n, e))
        return
    run.checks += 1
    coef = np.array(op["coef"], dtype="f8")
    t = (x - c) / h
    grid = np.linspace(-1, 1, 2001)
    if op["basis"] == "leg":
        pv = L.legval(t, coef)
        exact_t = 2.0 * coef[0]
        pmax = max(_scale(L.legval(grid, coef)), _scale(pv))
    else:
        pv = np.polynomial.polynomial.polyval(t, coef)
        kk = np.arange(coef.size)
        exact_t = float(np.sum(coef * (1.0 + (-1.0) ** kk) / (kk + 1.0)))
        pmax = max(_scale(np.polynomial.polynomial.polyval(grid, coef)), _scale(pv))
    exact = exact_t * (b - a) / 2.0
    got = float(np.sum(w * pv))
    run.event(0, "poly", "%r" % ((a, b, n, len(coef) - 1),), "ok", float(got).hex() if math.isfinite(got) else repr(got))
    tol = 1e-9 * abs(b - a) * pmax + 1e-300
    run.margin("quad.poly", abs(got - exact) / tol)
    if not (abs(got - exact) <= tol):
        run.fail("quad.poly", feats,
                 "gauleg(%r,%r,%d) integrates a degree-%d polynomial (max|p|=%.3g) to %r, exact %r, "
                 "error %.3e > 1e-9 (b-a) max|p| = %.3e" % (a, b, n, len(coef) - 1, pmax, got, exact,
                                                         abs(got - exact), tol))


def _do_func2(run, integrate, q2, nxy, op, judge, q2rng=None):
    nx, ny = nxy
    cx, hx, cy, hy = op["cx"], op["hx"], op["cy"], op["hy"]
    gx, gy = make_g(op["gx"]), make_g(op["gy"])
    cr = op["cross"]

    style = op.get("style", "expr")

    def f0(x, y):
        tx = (x - cx) / hx
        ty = (y - cy) / hy
        return gx(tx) * gy(ty) + cr * tx * ty * ty

    def f(x, y):
        # the integrand is handed two full grids of equal shape; user code may rely on that
        if style == "inplace":
            # accumulates in the array it made from x (r = g(x); r *= h(y); ...)
            tx = (x - cx) / hx
            ty = (y - cy) / hy
            out = gx(tx) + 0.0
            out *= gy(ty)
            tx *= cr
            tx *= ty
            tx *= ty
            out += tx
            return out
        if style == "pointwise":
            # a scalar function applied point by point and put back into the shape of x
            xs, ys = np.asarray(x, dtype="f8"), np.asarray(y, dtype="f8")
            vals = [float(f0(np.float64(a), np.float64(b))) for a, b in zip(xs.ravel(), ys.ravel())]
            return np.array(vals).reshape(xs.shape)
        return f0(x, y)

    xr = [cx - hx, cx + hx]
    yr = [cy - hy, cy + hy]
    feats = {"kind": "func2", "q2": "nx==ny" if nx == ny else "nx!=ny"}
    if style != "expr":
        feats["style"] = style
        run.fault("two_dimensional_integrand_relies_on_full_grids")
    try:
        xa, ya = xr, yr
        if op.get("rbuf") and q2rng is not None:
            # the ranges are the caller's own two-element arrays, refilled in place for every call
            q2rng[0][:] = xr
            q2rng[1][:] = yr
            xa, ya = q2rng
            run.fault("integration_ranges_are_arrays_refilled_in_place")
        got = q2.integrate_func(xa, ya, f)
    except Exception as e:
        run.event(0, "func2", "%r" % ((xr, yr),), "error(%s)" % type(e).__name__)
        if judge:
            run.fail("quad.q2.raises", feats, "QGauss2(%d,%d).integrate_func raised %r" % (nx, ny, e))
        return
    run.event(0, "func2", "%r" % ((xr, yr),), "ok", adigest(got))
    if not judge:
        return
    tx, wx = leggauss(nx)
    ty, wy = leggauss(ny)
    X = cx + hx * tx[None, :]
    Y = cy + hy * ty[:, None]
    Z = f0(X, Y)
    ref = hx * hy * float(np.sum(Z * (wx[None, :] * wy[:, None])))
    tol = 1e-9 * (2 * hx) * (2 * hy) * _scale(Z) + 1e-300
    _close(run, "quad.q2.value", got, ref, tol, feats, "QGauss2(%d,%d).integrate_func" % (nx, ny))


# ------------------------------------------------------------------ shrinking helpers

def simplify(script):
    """Candidate simplifications, simplest first."""
    ops = script["ops"]
    cfg = script["cfg"]
    if cfg.get("q2") and not any(o["k"] == "func2" for o in ops):
        c = dict(script)
        c["cfg"] = {k: v for k, v in cfg.items() if k != "q2"}
        yield c
    for i, op in enumerate(ops):
        for key, val in (("g", {"kind": "const", "a": 1.0}), ("gx", {"kind": "const", "a": 1.0}),
                         ("gy", {"kind": "const", "a": 1.0}), ("c", 0.0), ("h", 1.0), ("cx", 0.0),
                         ("hx", 1.0), ("cy", 0.0), ("hy", 1.0), ("rev", False), ("noise", False),
                         ("cross", 0.0), ("rk", "list")):
            if key in op and op[key] != val:
                c = dict(script)
                c["ops"] = ops[:i] + [dict(op, **{key: val})] + ops[i + 1:]
                yield c
        for key in ("npts", "n", "m"):
            v = op.get(key)
            if isinstance(v, int) and v > 2:
                for nv in (2, v // 2, v - 1):
                    if nv != v and nv >= 2:
                        c = dict(script)
                        c["ops"] = ops[:i] + [dict(op, **{key: nv})] + ops[i + 1:]
                        yield c
        if "coef" in op and len(op["coef"]) > 1:
            c = dict(script)
            c["ops"] = ops[:i] + [dict(op, coef=op["coef"][:-1])] + ops[i + 1:]
            yield c
