"""
ownsim -- caller sessions for the caller-owned-memory monitor (C15).

One run is one simulated analysis session: a small POOL of caller-owned arrays (coordinates,
data, weights, redshifts, integer/string keys, structured tables, covariance matrices), each
with a presentation drawn by the seed (fresh contiguous copy, the other declared byte order,
strided/offset view into a larger buffer whose gaps hold canaries, float32/integer where the
callee converts, 0-d, Fortran order for matrices), and a seeded sequence of 2-10 calls into
the families C15 names (field operations, byte-order helpers with inplace off, matching and
de-duplication, histograms and binning with weights, statistics helpers, coordinate
conversions, cosmology distances, HTM lookup / one-shot matching / pair counting).  The same
pool arrays are handed to call after call, and after EVERY call the whole base buffer, dtype,
strides and flags of EVERY pool array (not only the arguments of that call) are compared with
the snapshot taken when the array entered the pool.  Results are not judged; an exception is
an outcome, not a failure, but the pool must be intact after it too.

The per-call part is generated inputs (said plainly in DESIGN.md 3.7); what the session adds
is the pool monitor over a history: a call that scribbles on an array it was NOT handed this
time (through a cached reference, a returned view that a later documented in-place call
writes through, a static buffer) is seen at the step where it happens.
"""
import contextlib
import io

import numpy as np

from ..kernel import chance, pick, wpick, sdigest
from .. import present

# --------------------------------------------------------------------------- pool recipes

KINDS = ("lon", "lat", "x", "w", "rad", "z", "i", "iu", "s", "u", "rec", "rec2", "cov", "tabx", "rarng", "decrng")


def values(rec, n):
    """Deterministic base values of a pool entry (native, C-contiguous)."""
    g = np.random.Generator(np.random.PCG64(rec["seed"]))
    k = rec["kind"]
    if k == "lon":
        v = g.uniform(0.0, 360.0, n)
        v[g.random(n) < 0.1] = 0.0
        v[g.random(n) < 0.05] = 359.99999
        return v
    if k == "lat":
        v = np.degrees(np.arcsin(g.uniform(-1, 1, n)))
        v[g.random(n) < 0.05] = 90.0
        v[g.random(n) < 0.05] = -90.0
        return v
    if k == "x":
        return np.round(g.normal(0.0, 10.0 ** g.integers(-1, 3), n), 3)
    if k == "w":
        return np.round(g.uniform(0.1, 5.0, n), 3)
    if k == "rarng":
        return np.sort(np.round(g.uniform(0.0, 360.0, 2), 3))         # a longitude range: always 2 elements
    if k == "decrng":
        return np.sort(np.round(g.uniform(-90.0, 90.0, 2), 3))
    if k == "rad":
        return np.round(g.uniform(0.1, 5.0, n), 3)          # search radii in degrees (no special values: cost)
    if k == "z":
        return np.round(np.sort(g.uniform(0.01, 3.0, n)), 4)
    if k == "i":
        return g.integers(-5, 12, n).astype("i8")
    if k == "iu":
        return g.permutation(np.arange(-3, 4 * n - 3, 4))[:n].astype("i8")
    if k == "s":
        m = min(max(2, n), 5000)
        return np.array([("k%d" % t).encode() for t in range(m)], dtype="S6")[g.integers(0, m, n)]
    if k == "u":
        m = min(max(2, n), 5000)
        return np.array(["n%d" % t for t in range(m)], dtype="U5")[g.integers(0, m, n)]
    if k == "rec":
        a = np.zeros(n, dtype=[("id", "i4"), ("ra", "f8"), ("flux", "f4", (2,)), ("tag", "S4"), ("m", "i2")])
        a["id"] = np.arange(n)
        a["ra"] = np.round(g.uniform(0, 360, n), 5)
        a["flux"] = np.round(g.normal(0, 3, (n, 2)), 2)
        a["tag"] = np.array([("t%d" % t).encode() for t in range(50)], dtype="S4")[g.integers(0, 50, n)]
        a["m"] = g.integers(-300, 300, n)
        return a
    if k == "rec2":
        a = np.zeros(n, dtype=[("q", "f8"), ("flag", "u1"), ("e", "f4")])
        a["q"] = np.round(g.normal(0, 1, n), 4)
        a["flag"] = g.integers(0, 4, n)
        a["e"] = np.round(g.uniform(0, 1, n), 3)
        return a
    if k == "cov":
        d = rec.get("d", 3)
        A = g.normal(0, 1, (d, d))
        return np.round(A.dot(A.T) + d * np.eye(d), 6)
    if k == "tabx":
        return np.round(np.cumsum(g.uniform(0.1, 2.0, n)) - 3.0, 4)
    raise KeyError(k)


def specials(rec, v):
    """unusual but passable values: sentinels, blueshifts, non-finite numbers, out-of-range angles.  A callee may
    clip, mask or reject them -- in its own copy."""
    if not rec.get("special") or v.dtype.kind != "f" or v.ndim != 1 or v.size == 0:
        return v
    g = np.random.Generator(np.random.PCG64(rec["seed"] + 7))
    k = rec["kind"]
    pool = {"z": [-1.0, -9999.0, 0.0, -0.01], "x": [np.nan, np.inf, -np.inf, -99.0, 0.0], "w": [0.0, -1.0, np.nan, np.inf],
            "lon": [-10.0, 360.0, 720.5, -0.0], "lat": [90.0, -90.0, 0.0], "tabx": []}.get(k, [])
    if not pool:
        return v
    m = g.random(v.size) < 0.3
    if not m.any():
        m[g.integers(0, v.size)] = True
    v = v.copy()
    v[m] = g.choice(np.array(pool), int(m.sum()))
    return v


def _present(vals, spec):
    """present.make plus the local kinds: zerod (0-d array of the first element), fortran."""
    kind = spec.get("kind", "plain")
    if kind == "zerod":
        arg = np.array(vals.reshape(-1)[0])
        return arg, present.guard_only(arg) | {"kind": "zerod"}
    if kind == "fortran":
        arg = np.asfortranarray(vals.copy())
        return arg, present.guard_only(arg) | {"kind": "fortran"}
    return present.make(vals, spec)


def draw_pres(r, kind):
    if kind in ("rec", "rec2"):
        k = wpick(r, [("plain", 3), ("swapped", 3), ("strided", 3), ("strided_swapped", 2), ("offset", 1), ("fieldview", 1.5)])
    elif kind in ("s", "u"):
        k = wpick(r, [("plain", 3), ("strided", 3), ("offset", 1)] + ([("swapped", 2)] if kind == "u" else []))
    elif kind in ("i", "iu"):
        k = wpick(r, [("plain", 3), ("swapped", 3), ("strided", 3), ("strided_swapped", 2), ("offset", 1)])
    elif kind == "cov":
        k = wpick(r, [("plain", 3), ("swapped", 2), ("fortran", 2), ("strided", 2), ("f4", 1)])
    elif kind in ("rarng", "decrng"):
        k = wpick(r, [("plain", 4), ("swapped", 2), ("strided", 2), ("offset", 1), ("f4", 1), ("int", 1)])
    elif kind == "tabx":
        k = wpick(r, [("plain", 3), ("swapped", 3), ("strided", 3), ("strided_swapped", 2), ("offset", 1), ("f4", 1)])
    else:
        k = wpick(r, [("plain", 3), ("swapped", 3), ("strided", 3), ("strided_swapped", 2), ("f4", 1.5), ("int", 1),
                      ("offset", 1), ("zerod", 0.7)])
    return {"kind": k, "stride": r.randrange(2, 4), "off": r.randrange(0, 3)}


# --------------------------------------------------------------------------- call sites
# name -> (family, [argument kinds], callable(E, args, o))   E = namespace of esutil modules
# Only calls that are NOT documented as in-place are listed.

def _cosmo(E, o):
    key = (o.get("flat", True), o.get("om", 0.3), o.get("ok", 0.0))
    c = E["cache"].get(key)
    if c is None:
        if key[0]:
            c = E["cosmology"].Cosmo(omega_m=key[1])
        else:
            c = E["cosmology"].Cosmo(omega_m=key[1], omega_k=key[2], flat=False)
        E["cache"][key] = c
    return c


def _htm(E, o, cap=10):
    # cost bound: depth is limited by the radius of the request (a circle must not cover ~1e4 triangles)
    d = min(o.get("depth", 6), cap, {0.5: 8, 5.0: 6, 40.0: 3}.get(o.get("radius", 5.0), 3))
    h = E["cache"].get(("htm", d))
    if h is None:
        h = E["cache"][("htm", d)] = E["htm"].HTM(d)
    return h


def _names(o, default):
    nm = o.get("names", default)
    how = o.get("how", "list")
    if how == "tuple":
        return tuple(nm)
    if how == "array":
        return np.array(nm)
    if how == "scalar" and len(nm) >= 1:
        return nm[0]
    return list(nm)


SITES = {}


class _Null(io.TextIOBase):
    def write(self, s):
        return len(s)


_NULL = _Null()


def site(name, family, kinds):
    def deco(fn):
        SITES[name] = (family, kinds, fn)
        return fn
    return deco


# ---- field operations
@site("extract_fields", "fields", ["rec"])
def _(E, a, o):
    return E["nu"].extract_fields(a[0], _names(o, ["ra", "id"]), strict=o.get("strict", True))


@site("remove_fields", "fields", ["rec"])
def _(E, a, o):
    return E["nu"].remove_fields(a[0], _names(o, ["flux"]))


@site("add_fields", "fields", ["rec"])
def _(E, a, o):
    if o.get("defaults"):
        return E["nu"].add_fields(a[0], [("new1", "f8"), ("new2", "i4")], defaults=[2.5, 7])
    return E["nu"].add_fields(a[0], [("new1", "f8"), ("new2", "i4", (2,))])


@site("reorder_fields", "fields", ["rec"])
def _(E, a, o):
    return E["nu"].reorder_fields(a[0], _names(o, ["tag", "id"]), strict=o.get("strict", True))


@site("combine_arrlist", "fields", ["rec", "rec"])
def _(E, a, o):
    return E["nu"].combine_arrlist([a[0], a[1]], keep=o.get("keep", False))


@site("combine_fields", "fields", ["rec", "rec2"])
def _(E, a, o):
    return E["nu"].combine_fields([a[0], a[1]])


@site("copy_fields_src", "fields", ["rec"])
def _(E, a, o):
    # copy_fields(arr1, arr2) is documented to fill arr2: only the SOURCE is caller-protected
    dst = np.zeros(a[0].shape[0] if a[0].ndim else 1, dtype=[("id", "i8"), ("ra", "f4"), ("zz", "f8")])
    return E["nu"].copy_fields(a[0], dst)


@site("split_fields", "fields", ["rec"])
def _(E, a, o):
    return E["nu"].split_fields(a[0], fields=o.get("names"), getnames=o.get("getnames", False))


@site("compare_arrays", "fields", ["rec", "rec"])
def _(E, a, o):
    return E["nu"].compare_arrays(a[0], a[1], verbose=False)


# ---- byte order helpers, inplace off
def _bo(fname):
    def f(E, a, o):
        return getattr(E["nu"], fname)(a[0], inplace=False, keep_dtype=o.get("keep_dtype", False))
    return f


for _fn in ("to_native", "to_big_endian", "to_little_endian", "byteswap"):
    for _k in ("x", "i", "rec", "u"):
        SITES["%s(%s)" % (_fn, _k)] = ("byteorder", [_k], _bo(_fn))
SITES["is_big_endian"] = ("byteorder", ["x"], lambda E, a, o: (E["nu"].is_big_endian(a[0]), E["nu"].is_little_endian(a[0])))


# ---- matching and de-duplication
@site("match(int)", "match", ["iu", "i"])
def _(E, a, o):
    return E["nu"].match(a[0], a[1], presorted=False)


@site("match(float)", "match", ["tabx", "x"])
def _(E, a, o):
    return E["nu"].match(a[0], a[1], presorted=o.get("presorted", False))


@site("match(str)", "match", ["s", "s"])
def _(E, a, o):
    return E["nu"].match(np.unique(a[0]), a[1])


@site("match(unicode)", "match", ["u", "u"])
def _(E, a, o):
    return E["nu"].match(np.unique(a[0]), a[1])


@site("unique", "match", ["i"])
def _(E, a, o):
    return E["nu"].unique(a[0], values=o.get("values", False))


@site("unique(float)", "match", ["x"])
def _(E, a, o):
    return E["nu"].unique(a[0], values=o.get("values", False))


@site("rem_dup", "match", ["i", "w"])
def _(E, a, o):
    return E["nu"].rem_dup(a[0], a[1], values=o.get("values", False))


@site("between", "match", ["x"])
def _(E, a, o):
    return E["nu"].between(a[0], -1.0, 2.0), E["nu"].outside(a[0], -1.0, 2.0)


@site("select_percentile", "match", ["x"])
def _(E, a, o):
    return E["nu"].select_percentile(a[0], 0.8, get_ranges=o.get("values", False))


@site("splitarray", "match", ["x"])
def _(E, a, o):
    return E["nu"].splitarray(o.get("nper", 3), a[0])


@site("arrscl", "match", ["x"])
def _(E, a, o):
    return E["nu"].arrscl(a[0], 0.0, 1.0)


# ---- histograms and binning
@site("histogram", "hist", ["x"])
def _(E, a, o):
    kw = {}
    if o.get("nbin"):
        kw["nbin"] = o["nbin"]
    else:
        kw["binsize"] = o.get("binsize", 1.0)
    if o.get("limits"):
        kw["min"], kw["max"] = -2.0, 3.0
    return E["stat"].histogram(a[0], rev=o.get("rev", False), more=o.get("more", False), use_c=o.get("use_c", True), **kw)


@site("histogram(int)", "hist", ["i"])
def _(E, a, o):
    return E["stat"].histogram(a[0], binsize=o.get("ibinsize", 1), rev=o.get("rev", False), more=o.get("more", False))


@site("histogram(weights)", "hist", ["x", "w"])
def _(E, a, o):
    return E["stat"].histogram(a[0], weights=a[1], nbin=o.get("nbin") or 4, more=True)


@site("histogram(nperbin)", "hist", ["x"])
def _(E, a, o):
    return E["stat"].histogram(a[0], nperbin=o.get("nper", 3), mergelast=o.get("keep", False), more=o.get("more", False),
                               rev=o.get("rev", False))


@site("histogram2d", "hist", ["x", "x"])
def _(E, a, o):
    kw = {}
    if o.get("limits"):
        # explicit limits: wide enough to cut nothing, or cutting some of the points, on one axis or both
        for nm, v in (("x", np.asarray(a[0], dtype="f8")), ("y", np.asarray(a[1], dtype="f8"))):
            f = v[np.isfinite(v)]
            if f.size == 0 or (nm == "y" and o.get("select", 1) % 3 == 0):
                continue
            if o.get("select", 1) % 2:
                kw[nm + "min"], kw[nm + "max"] = float(f.min()) - 1.0, float(f.max()) + 1.0
            else:
                kw[nm + "min"] = float(np.median(f))
    return E["stat"].histogram2d(a[0], a[1], nx=3, ny=4, rev=o.get("rev", False), more=o.get("more", False), **kw)


@site("Binner", "hist", ["x", "x", "w"])
def _(E, a, o):
    b = E["stat"].Binner(a[0], y=a[1] if o.get("y", True) else None, weights=a[2] if o.get("weights") else None)
    if o.get("nper"):
        b.dohist(nperbin=o["nper"], rev=True)
    else:
        b.dohist(nbin=o.get("nbin") or 3, rev=True)
    b.calc_stats()
    return b


# ---- statistics helpers
@site("wmom", "stat", ["x", "w"])
def _(E, a, o):
    return E["stat"].wmom(a[0], a[1], calcerr=o.get("calcerr", False), sdev=o.get("sdev", False),
                          inputmean=0.5 if o.get("inputmean") else None)


@site("wmedian", "stat", ["x", "w"])
def _(E, a, o):
    return E["stat"].wmedian(a[0], a[1])


@site("sigma_clip", "stat", ["x", "w"])
def _(E, a, o):
    return E["stat"].sigma_clip(a[0], weights=a[1] if o.get("weights") else None, nsig=o.get("nsig", 2.0),
                                niter=o.get("niter", 3), get_err=True, get_indices=o.get("values", False), silent=True)


@site("get_stats", "stat", ["x", "w"])
def _(E, a, o):
    return E["stat"].get_stats(a[0], weights=a[1] if o.get("weights") else None)


@site("interplin", "stat", ["x", "tabx", "x"])
def _(E, a, o):
    return E["stat"].interplin(a[0], a[1], a[2])


@site("cov2cor", "stat", ["cov"])
def _(E, a, o):
    cor = E["stat"].cov2cor(a[0])
    return cor


@site("cor2cov", "stat", ["cov", "w"])
def _(E, a, o):
    c = a[0]
    d = c.shape[0]
    w = a[1]
    if w.ndim == 0 or w.shape[0] < d:
        raise ValueError("session: not enough weights")
    return E["stat"].cor2cov(c, w[:d])


@site("boxcar_average", "stat", ["x"])
def _(E, a, o):
    return E["stat"].boxcar_average(a[0], o.get("nper", 3))


# ---- coordinates
def _euler(fname):
    def f(E, a, o):
        return getattr(E["coords"], fname)(a[0], a[1], b1950=o.get("b1950", False))
    return f


for _fn in ("eq2gal", "gal2eq", "eq2ec", "ec2eq", "ec2gal", "gal2ec"):
    SITES[_fn] = ("coords", ["lon", "lat"], _euler(_fn))


@site("euler", "coords", ["lon", "lat"])
def _(E, a, o):
    return E["coords"].euler(a[0], a[1], o.get("select", 1), b1950=o.get("b1950", False))


@site("eq2xyz", "coords", ["lon", "lat"])
def _(E, a, o):
    return E["coords"].eq2xyz(a[0], a[1], units=o.get("units", "deg"), stomp=o.get("stomp", False))


@site("xyz2eq", "coords", ["x", "x", "x"])
def _(E, a, o):
    return E["coords"].xyz2eq(a[0], a[1], a[2], units=o.get("units", "deg"), stomp=o.get("stomp", False))


@site("sphdist", "coords", ["lon", "lat", "lon", "lat"])
def _(E, a, o):
    u = o.get("units", "deg")
    return E["coords"].sphdist(a[0], a[1], a[2], a[3], units=[u, o.get("units2", "deg")])


@site("gcirc", "coords", ["lon", "lat", "lon", "lat"])
def _(E, a, o):
    return E["coords"].gcirc(a[0], a[1], a[2], a[3], getangle=o.get("values", False))


@site("eq2sdss", "coords", ["lon", "lat"])
def _(E, a, o):
    return E["coords"].eq2sdss(a[0], a[1])


@site("sdss2eq", "coords", ["lat", "lat"])
def _(E, a, o):
    return E["coords"].sdss2eq(a[0], a[1])


def _shift_arg(E, o):
    """the shift option as the caller holds it: a number, or a one-element array (a value kept in an array is the
    caller's memory as well) -- sometimes beyond 360"""
    sh = o.get("shift")
    if sh is None or not o.get("shift_arr"):
        return sh
    val = float(sh) + (360.0 if o.get("select", 1) % 2 else 0.0)
    if val < 0 and o.get("select", 1) % 3 == 0:
        val = 400.0
    arg, g = present.make(np.array([val]), {"kind": o.get("idpres", "plain"), "stride": 2, "off": 1})
    E["extra"].append(("shift", g))
    return arg


@site("shiftlon", "coords", ["lon"])
def _(E, a, o):
    return E["coords"].shiftlon(a[0], shift=_shift_arg(E, o), wrap=o.get("wrap", True))


@site("shiftra", "coords", ["lon"])
def _(E, a, o):
    return E["coords"].shiftra(a[0], shift=_shift_arg(E, o), wrap=o.get("wrap", True))


@site("radec2aitoff", "coords", ["lon", "lat"])
def _(E, a, o):
    return E["coords"].radec2aitoff(a[0], a[1])


@site("randsphere(ranges)", "coords", ["rarng", "decrng"])
def _(E, a, o):
    # the ranges are caller arrays too; two calls with the same range objects, as a caller drawing several batches does
    rng = np.random.RandomState(12345)
    n_ = 5 if np.ndim(a[0]) else 1
    E["coords"].randsphere(n_, ra_range=a[0], dec_range=a[1], rng=rng)
    return E["coords"].randsphere(n_, ra_range=a[0], dec_range=a[1], rng=rng)


@site("randcap", "coords", ["lon", "lat"])
def _(E, a, o):
    ra0 = float(np.asarray(a[0]).reshape(-1)[0])
    dec0 = float(np.asarray(a[1]).reshape(-1)[0])
    return E["coords"].randcap(4, ra0, dec0, o.get("radius", 5.0), get_radius=o.get("values", False),
                               dorot=o.get("stomp", False), rng=np.random.RandomState(7))


@site("match_multi", "match", ["iu", "i"])
def _(E, a, o):
    return E["nu"].match_multi(a[0], a[1])


@site("rotate", "coords", ["lon", "lat"])
def _(E, a, o):
    return E["coords"].rotate(o.get("phi", 10.0), o.get("theta", 20.0), o.get("psi", 30.0), a[0], a[1])


# ---- cosmology
def _cos1(fname):
    def f(E, a, o):
        return getattr(_cosmo(E, o), fname)(a[0])
    return f


def _cos2(fname):
    def f(E, a, o):
        c = _cosmo(E, o)
        how = o.get("zform", "aa")
        if how == "sa":
            return getattr(c, fname)(0.05, a[1])
        if how == "as":
            return getattr(c, fname)(a[0], 3.5)
        return getattr(c, fname)(a[0], a[1])
    return f


for _fn in ("dV", "distmod", "Ez_inverse"):
    SITES["Cosmo." + _fn] = ("cosmology", ["z"], _cos1(_fn))
for _fn in ("Dc", "Dm", "Da", "Dl", "sigmacritinv"):     # V and Ezinv_integral take scalars only
    SITES["Cosmo." + _fn] = ("cosmology", ["z", "z"], _cos2(_fn))


# ---- HTM lookup / intersect / one-shot matching / pair counting
@site("HTM.lookup_id", "htm", ["lon", "lat"])
def _(E, a, o):
    return _htm(E, o).lookup_id(a[0], a[1])


@site("HTM.match", "htm", ["lon", "lat", "lon", "lat"])
def _(E, a, o):
    return _htm(E, o).match(a[0], a[1], a[2], a[3], o.get("radius", 5.0), maxmatch=o.get("maxmatch", 1))


@site("HTM.match(perpoint)", "htm", ["lon", "lat", "lon", "lat", "rad"])
def _(E, a, o):
    return _htm(E, o, cap=6).match(a[0], a[1], a[2], a[3], a[4], maxmatch=o.get("maxmatch", -1))   # radii <= 5 deg


@site("Matcher", "htm", ["lon", "lat", "lon", "lat"])
def _(E, a, o):
    # the reusable matcher built directly from the caller's catalogue, then asked once
    d = min(o.get("depth", 6), 10, {0.5: 8, 5.0: 6, 40.0: 3}.get(o.get("radius", 5.0), 3))
    m = E["htm"].Matcher(d, a[0], a[1])
    return m.match(a[2], a[3], o.get("radius", 5.0), maxmatch=o.get("maxmatch", 1))


@site("HTM.bincount", "htm", ["lon", "lat", "lon", "lat", "w"])
def _(E, a, o):
    sc = None
    if o.get("scale") == "array":
        sc = a[4]
    elif o.get("scale") == "scalar":
        sc = 1.5
    return _htm(E, o, cap=4).bincount(0.01, 8.0, o.get("nbin") or 4, a[0], a[1], a[2], a[3], scale=sc, getbins=o.get("values", False))


@site("HTM.bincount(htmid2)", "htm", ["lon", "lat", "lon", "lat"])
def _(E, a, o):
    # the documented htmid2= option: ids computed by an earlier lookup_id call are the CALLER's array too
    h = _htm(E, o, cap=4)
    ids = np.asarray(h.lookup_id(a[2], a[3]))
    arg, g = present.make(ids, {"kind": o.get("idpres", "plain"), "stride": 2, "off": 1})
    E["extra"].append(("htmid2", g))
    return h.bincount(0.01, 8.0, o.get("nbin") or 4, a[0], a[1], a[2], a[3], htmid2=arg, getbins=False)


@site("HTM.cylmatch", "htm", ["lon", "lat", "z", "lon", "lat", "z"])
def _(E, a, o):
    return _htm(E, o).cylmatch(a[0], a[1], a[2], a[3], a[4], a[5], o.get("radius", 5.0), 0.5, maxmatch=o.get("maxmatch", 5) or 5)


FAMILIES = sorted(set(v[0] for v in SITES.values()))
NAMES = sorted(SITES)


# --------------------------------------------------------------------------- plan

def _opts(r, name):
    o = {}
    if chance(r, 0.5):
        o["keep_dtype"] = True
    for key in ("rev", "more", "values", "weights", "calcerr", "sdev", "inputmean", "keep", "getnames", "defaults",
                "limits", "presorted", "stomp", "b1950"):
        if chance(r, 0.4):
            o[key] = True
    if chance(r, 0.3):
        o["strict"] = False
    if chance(r, 0.5):
        o["nbin"] = r.randrange(1, 7)
    if chance(r, 0.5):
        o["nper"] = r.randrange(1, 6)
    if chance(r, 0.3):
        o["use_c"] = False
    o["binsize"] = pick(r, [0.5, 1.0, 2.5, 10.0])
    o["how"] = pick(r, ["list", "tuple", "array", "scalar"])
    if name in ("extract_fields", "reorder_fields", "remove_fields", "split_fields"):
        pool = ["id", "ra", "flux", "tag", "m"]
        r.shuffle(pool)
        o["names"] = pool[:r.randrange(1, 4)]
    o["units"] = pick(r, ["deg", "rad"])
    o["units2"] = pick(r, ["deg", "rad"])
    o["select"] = r.randrange(1, 7)
    o["shift"] = pick(r, [None, 90.0, 180.0, -45.0])
    o["wrap"] = chance(r, 0.6)
    o["shift_arr"] = chance(r, 0.4)
    o["flat"] = chance(r, 0.6)
    o["om"] = pick(r, [0.25, 0.3, 1.0])
    o["ok"] = pick(r, [-0.1, 0.05])
    o["zform"] = pick(r, ["aa", "aa", "sa", "as"])
    o["depth"] = pick(r, [3, 6, 8, 10])
    o["radius"] = pick(r, [0.5, 5.0, 40.0])
    o["maxmatch"] = pick(r, [-1, 0, 1, 2])
    o["scale"] = pick(r, [None, "scalar", "array"])
    o["nsig"] = pick(r, [1.0, 2.0, 3.5])
    o["niter"] = r.randrange(0, 5)
    o["y"] = chance(r, 0.7)
    o["idpres"] = pick(r, ["plain", "plain", "strided", "swapped", "offset"])
    return o


def plan(S, prop, mode, tier, avoid):
    cfg = S.py("config")
    n = wpick(cfg, [(1, 1), (2, 1), (3, 1), (cfg.randrange(4, 12), 4), (cfg.randrange(12, 40), 3),
                    (cfg.randrange(1024, 2100), 0.35)])
    fams = [f for f in FAMILIES if chance(cfg, 0.6)] or [pick(cfg, FAMILIES)]
    if chance(cfg, 0.0015):
        # a catalogue-sized session: just above 2**20 elements (block sizes hidden in a callee), restricted to the
        # families whose cost is linear in n
        n = (1 << 20) + cfg.randrange(1, 70)
        fams = [f for f in ("coords", "cosmology", "byteorder") if chance(cfg, 0.7)] or ["coords"]
    names = [nm for nm in NAMES if SITES[nm][0] in fams]
    if n > 100000:
        names = [nm for nm in names if nm not in ("sphdist", "gcirc", "rotate")] or names
    r = S.py("session")
    pool = []
    ops = []
    nops = r.randrange(2, 11) if n < 100000 else r.randrange(2, 6)
    for j in range(nops):
        name = pick(r, names)
        kinds = SITES[name][1]
        idx = []
        for k in kinds:
            have = [i for i, p in enumerate(pool) if p["kind"] == k and i not in idx]
            if have and chance(r, 0.6):
                idx.append(pick(r, have))
            else:
                rec = {"kind": k, "seed": r.randrange(1 << 30), "pres": draw_pres(r, k), "special": chance(r, 0.25)}
                if k == "cov":
                    rec["d"] = r.randrange(1, 5)
                pool.append(rec)
                idx.append(len(pool) - 1)
        ops.append({"k": name, "a": idx, "o": _opts(r, name), "c": 0, "tmp": chance(r, 0.3)})
    return {"cfg": {"n": n}, "pool": pool, "ops": ops}


def describe(script):
    return {"n": script["cfg"]["n"], "pool": [(p["kind"], p["pres"]["kind"]) for p in script["pool"]],
            "ops": [(op["k"], op["a"]) for op in script["ops"]]}


# --------------------------------------------------------------------------- execute

class _Temporaries(object):
    """Hands every argument over as a view object created in the call expression itself (`z[:]`): nothing but the
    call refers to it, exactly as in `cosmo.Da(0.0, z[a:b])`.  The memory is still the caller's."""

    def __init__(self, args):
        self._args = args

    def __len__(self):
        return len(self._args)

    def __getitem__(self, i):
        a = self._args[i]
        return a[...] if isinstance(a, np.ndarray) else a


def _env():
    import esutil
    from esutil import numpy_util, stat, coords, cosmology, htm
    return {"nu": numpy_util, "stat": stat, "coords": coords, "cosmology": cosmology, "htm": htm, "cache": {}, "extra": []}


def execute(script, run, env):
    E = _env()
    n = max(1, int(script["cfg"].get("n", 5)))
    live = {}       # pool index -> (arg, guard)
    used = {}       # pool index -> number of calls it was handed to

    def get(i):
        if i not in live:
            rec = script["pool"][i % len(script["pool"])]
            vals = specials(rec, values(rec, n))
            if rec.get("special"):
                run.fault("special_values_in_a_caller_array")
            if rec["pres"]["kind"] == "int" and vals.dtype.kind == "f":
                # integer presentation: non-finite specials become modest sentinels (an integer 2**31 would
                # make a histogram allocate billions of bins -- a cost matter, not an ownership one)
                vals = np.nan_to_num(vals, nan=0.0, posinf=99.0, neginf=-99.0)
            if rec["kind"] == "cov" and rec["pres"]["kind"] in ("zerod", "int"):
                rec = dict(rec, pres=dict(rec["pres"], kind="plain"))
            live[i] = _present(vals, rec["pres"]) + (rec,)
        return live[i]

    for step, op in enumerate(script["ops"]):
        run.step = step
        name = op["k"]
        if name not in SITES or not script["pool"]:
            run.event(0, name, "", "skipped(unknown)")
            continue
        fam, kinds, fn = SITES[name]
        args = []
        for i in op["a"]:
            arg, g, rec = get(i)
            args.append(arg)
            if used.get(i, 0) > 0:
                run.fault("array_reused_by_a_later_call")
            used[i] = used.get(i, 0) + 1
        st = "fam=%s|pool=%d" % (fam, min(4, len(live)))
        run.states.add(st)
        run.trans.add("%s|%s|%s" % (st, name, ",".join(live[i][1]["kind"] for i in op["a"])))
        del E["extra"][:]
        call_args = args
        if op.get("tmp"):
            call_args = _Temporaries(args)
            run.fault("arguments_passed_as_temporaries")
        with np.errstate(all="ignore"), contextlib.redirect_stdout(_NULL):
            try:
                fn(E, call_args, op.get("o", {}))
                out = "ok"
            except Exception as e:
                out = "error(%s)" % type(e).__name__
                run.fault("call_raised")
        run.event(0, name, sdigest([op["a"], op.get("o", {})]), out)
        run.probe("family_" + fam)
        # the whole pool, not only this call's arguments
        for i in sorted(live):
            arg, g, rec = live[i]
            run.checks += 1
            handed = i in op["a"]
            if handed:
                bad = present.changed(g, run)
            else:
                bad = present.changed(g, None)
            if bad:
                run.fail("own.session", {"call": name, "family": fam, "kind": rec["kind"], "present": g["kind"],
                                         "handed": handed},
                         "%s(%s) modified %s caller array #%d (%s, presented %s, n=%d): %s"
                         % (name, ", ".join("%s:%s" % (script["pool"][k % len(script["pool"])]["kind"], live[k][1]["kind"])
                                            for k in op["a"]),
                            "its argument," if handed else "an array it was NOT handed in this call:", i, rec["kind"],
                            g["kind"], n, bad))
        for nm, g in E["extra"]:
            run.checks += 1
            bad = present.changed(g, run)
            if bad:
                run.fail("own.session", {"call": name, "family": fam, "kind": nm, "present": g["kind"], "handed": True},
                         "%s modified the caller's %s array (presented %s, n=%d): %s" % (name, nm, g["kind"], n, bad))
        del E["extra"][:]
        if run.failures:
            break
    run.nontrivial = bool(script["ops"])


# --------------------------------------------------------------------------- shrink

def simplify(script):
    ops = script["ops"]
    n = script["cfg"].get("n", 5)
    for nn in (1, 2, 3, n // 2):
        if 1 <= nn < n:
            yield dict(script, cfg=dict(script["cfg"], n=nn))
    for i, op in enumerate(ops):
        if op.get("o"):
            for key in list(op["o"]):
                o2 = dict(op["o"])
                del o2[key]
                yield dict(script, ops=ops[:i] + [dict(op, o=o2)] + ops[i + 1:])
    for j, p in enumerate(script["pool"]):
        if p.get("special"):
            pool = list(script["pool"])
            pool[j] = dict(p, special=False)
            yield dict(script, pool=pool)
        if p["pres"]["kind"] != "plain":
            for alt in ("plain", "swapped", "strided"):
                if alt != p["pres"]["kind"]:
                    pool = list(script["pool"])
                    pool[j] = dict(p, pres=dict(p["pres"], kind=alt))
                    yield dict(script, pool=pool)
