"""Engine registry (lazy imports so that one engine's import error cannot hide another)."""
import importlib

NAMES = ("quadsim", "progsim", "recsim", "rngsim", "wcssim", "htmsim", "ownsim")
_cache = {}


def get(name):
    m = _cache.get(name)
    if m is None:
        if name not in NAMES:
            raise KeyError(name)
        m = _cache[name] = importlib.import_module("dsim.engines." + name)
    return m
