"""
htmsim -- reusable Matcher objects and pair files under call histories (C12, part of C15).

Simulator-owned: which of several long-lived matchers is asked next (interleaved callers),
what is already at an output path (stale, longer pair files), calls that are rejected
(mismatched sizes, unwritable output path) after which the same matcher is used again.
Oracle: brute-force pair enumeration in extended precision, per call.
"""
import math
import os

import numpy as np

from ..kernel import scribble, Held, chance, pick, wpick, adigest, sdigest
from ..refs.sphere import sep_deg
from .. import present

REAL = ["esutil.htm (Python, _htmc C++ and the HTM library)", "esutil.recfile (read_pairs)", "glibc stdio", "kernel file system"]
STUB = []
BAND = 1e-9        # degrees: pairs this close to the radius are not constrained


# =========================================================================== point sets

def points(rec):
    g = np.random.Generator(np.random.PCG64(rec["seed"]))
    n = rec["n"]
    k = rec["kind"]
    if k == "uniform":
        ra = g.uniform(0, 360, n)
        dec = np.rad2deg(np.arcsin(g.uniform(-1, 1, n)))
    elif k == "cap":
        # points around (cra, cdec) within crad, by offsetting in the tangent plane directions
        rho = rec["crad"] * np.sqrt(g.random(n))
        psi = g.uniform(0, 2 * np.pi, n)
        ra, dec = offset(rec["cra"], rec["cdec"], rho, psi)
    elif k == "pole":
        s = rec.get("sign", 1)
        rho = rec["crad"] * np.sqrt(g.random(n))
        rho[g.random(n) < 0.15] = 0.0               # exactly at the pole
        ra = g.uniform(0, 360, n)
        dec = s * (90.0 - rho)
    elif k == "seam":
        ra = np.mod(g.uniform(-rec["crad"], rec["crad"], n), 360.0)
        ra[g.random(n) < 0.1] = 0.0
        dec = rec["cdec"] + g.uniform(-rec["crad"], rec["crad"], n)
        dec = np.clip(dec, -90, 90)
    elif k == "edge":
        # points ON a boundary shared by triangles at every depth (the octant edges ra = 0/90/180/270 and dec = 0),
        # within crad of a spot on it: neighbours fall on both sides of the edge
        if rec.get("line") == "dec0":
            ra = rec["cra"] + g.uniform(-rec["crad"], rec["crad"], n)
            dec = np.zeros(n)
        else:
            ra = np.full(n, float(rec.get("line_ra", 0.0)))
            dec = rec["cdec"] + g.uniform(-rec["crad"], rec["crad"], n)
            dec = np.clip(dec, -90, 90)
    elif k == "shift":
        # the points of another set moved ALONG THEIR PARALLEL (same declination) by the longitude difference that
        # makes the separation `rho`: for a given separation this is where the longitude difference is largest,
        # 2 asin(sin(rho/2) / cos(dec)) -- more than rho / cos(dec)
        bra, bdec = points(rec["of"])
        bra, bdec = bra[:n], bdec[:n]
        n = bra.size
        rho = rec["rho"] * g.uniform(0.985, 0.9999, n) if n else np.zeros(0)
        s_ = np.sin(np.radians(rho) / 2.0) / np.maximum(np.cos(np.radians(bdec)), 1e-300)
        ok = s_ < 1.0
        dal = np.degrees(2.0 * np.arcsin(np.clip(s_, 0.0, 1.0)))
        ra = np.where(ok, bra + rec.get("sign", 1) * dal, bra)
        dec = bdec.copy()
        if n and not ok.all():
            ra2, dec2 = offset(bra, bdec, rho, np.full(n, np.pi / 2 * rec.get("sign", 1)))
            ra = np.where(ok, ra, ra2)
            dec = np.where(ok, dec, dec2)
    else:
        raise ValueError(k)
    if rec.get("anti") and n > 1:
        # the second half of the set sits at (or within a few micro-degrees of) the ANTIPODES of the first half: pairs
        # at separations 180 - 0 .. 5e-6 deg, for radii just below 180
        h = n // 2
        src = np.arange(n - h) % max(1, h)
        ra2 = np.mod(ra[src] + 180.0, 360.0)
        dec2 = -dec[src]
        rho = np.where(g.random(n - h) < 0.3, 0.0, g.uniform(0.0, 5e-6, n - h))
        ra2, dec2 = offset(ra2, dec2, rho, g.uniform(0, 2 * np.pi, n - h))
        ra = np.concatenate([ra[:h], ra2])
        dec = np.concatenate([dec[:h], dec2])
    tw = rec.get("twin")
    if tw and n > 1:
        # the second half of the set are partners of the first half at about the separation `tw` (0.3 .. 1.3 of it,
        # random direction): many pairs sit near the search radius and, for sets on an edge, across it
        h = n // 2
        rho = tw * g.uniform(0.3, 1.3, n - h)
        psi = g.uniform(0, 2 * np.pi, n - h)
        src = np.arange(n - h) % max(1, h)
        ra2, dec2 = offset(ra[src], dec[src], rho, psi)
        ra = np.concatenate([ra[:h], ra2])
        dec = np.concatenate([dec[:h], dec2])
    if rec.get("dups") and n > 1:
        m = g.random(n) < 0.3
        src = g.integers(0, n, n)
        ra = np.where(m, ra[src], ra)
        dec = np.where(m, dec[src], dec)
        # and runs of identical CONSECUTIVE positions
        adj = np.nonzero(g.random(n - 1) < 0.25)[0]
        for i in adj:
            ra[i + 1], dec[i + 1] = ra[i], dec[i]
    if rec.get("round"):
        ra = np.round(ra, rec["round"])
        dec = np.round(dec, rec["round"])
    ra = np.mod(ra, 360.0)
    ra[ra >= 360.0] = 0.0
    return np.ascontiguousarray(ra, dtype="f8"), np.ascontiguousarray(np.clip(dec, -90, 90), dtype="f8")


def offset(ra0, dec0, rho_deg, psi):
    """destination points at distance rho and position angle psi from (ra0, dec0)"""
    a0, d0, rho = np.deg2rad(ra0), np.deg2rad(dec0), np.deg2rad(rho_deg)
    cx, cy, cz = np.cos(d0) * np.cos(a0), np.cos(d0) * np.sin(a0), np.sin(d0)
    ex, ey, ez = -np.sin(a0), np.cos(a0), 0.0
    nx, ny, nz = -np.sin(d0) * np.cos(a0), -np.sin(d0) * np.sin(a0), np.cos(d0)
    cr, sr, cp, sp = np.cos(rho), np.sin(rho), np.cos(psi), np.sin(psi)
    px = cr * cx + sr * (cp * nx + sp * ex)
    py = cr * cy + sr * (cp * ny + sp * ey)
    pz = cr * cz + sr * (cp * nz + sp * ez)
    return np.mod(np.rad2deg(np.arctan2(py, px)), 360.0), np.rad2deg(np.arctan2(pz, np.hypot(px, py)))


def draw_set(r, n_max, region=None):
    n = wpick(r, [(1, 1), (r.randrange(2, 12), 4), (r.randrange(12, n_max + 1), 3), (0, 0.25)])    # rarely an EMPTY set
    kind = wpick(r, [("uniform", 2), ("cap", 5), ("pole", 2), ("seam", 2), ("edge", 2)])
    rec = {"kind": kind, "n": n, "seed": r.randrange(1 << 30), "dups": chance(r, 0.3)}
    if region is not None and chance(r, 0.8):
        # draw in the same region as another set so that pairs exist
        for k in ("kind", "cra", "cdec", "crad", "sign", "line", "line_ra"):
            if k in region:
                rec[k] = region[k]
        return rec
    if kind in ("cap", "pole", "seam"):
        rec["crad"] = float("%.3g" % (10 ** r.uniform(-4, math.log10(30))))
    if kind == "cap":
        rec["cra"] = round(r.uniform(0, 360), 5)
        rec["cdec"] = round(math.degrees(math.asin(r.uniform(-1, 1))), 5)
    if kind == "pole":
        rec["sign"] = pick(r, [1, -1])
    if kind == "seam":
        rec["cdec"] = round(r.uniform(-80, 80), 4)
    if kind == "edge":
        rec["crad"] = float("%.3g" % (10 ** r.uniform(-5, 0)))
        if chance(r, 0.3):
            rec["line"] = "dec0"
            rec["cra"] = round(r.uniform(0, 360), 4)
        else:
            rec["line"] = "ra"
            rec["line_ra"] = pick(r, [0.0, 90.0, 180.0, 270.0])
            rec["cdec"] = round(r.uniform(-80, 80), 4)
    if chance(r, 0.1):
        rec["round"] = pick(r, [2, 4])
    return rec


def max_depth_for(radius):
    """cost bound: a circle may cover at most ~2e4 leaf triangles"""
    if radius <= 0:
        return 13
    d = int(math.floor(math.log2(126.0 * 90.0 / radius)))
    return max(1, min(13, d))


# =========================================================================== plan

def plan(S, prop, mode, tier, avoid):
    cfg = S.py("config")
    ncallers = wpick(cfg, [(1, 5), (2, 3), (3, 1.5)])
    callers = []
    for c in range(ncallers):
        r = S.py("caller%d" % c)
        ops = []
        m = "m%d" % c
        base = draw_set(r, 120)
        scale = base.get("crad", 30.0)
        ops.append({"k": "build", "m": m, "set": base, "depth": None, "c": c})
        radii = []
        nmatch = r.randrange(2, 7) if not (tier == "thorough" and chance(r, 0.12)) else r.randrange(7, 16)
        for j in range(nmatch):
            rk = wpick(r, [("scaled", 6), ("zero", 0.7), ("tiny", 1), ("big", 1), ("all", 0.5), ("round", 0.8)])
            if rk == "round":
                # the radii people type: an arcsecond, an arcminute, a degree, whole numbers (int as often as float)
                rad = pick(r, [1.0 / 3600, 2.0 / 3600, 1.0 / 60, 0.1, 0.5, 1.0, 1, 2, 5.0, 10, 30, 45.0, 60])
            elif rk == "scaled":
                rad = float("%.4g" % (scale * 10 ** r.uniform(-2.5, 0.5)))
            elif rk == "zero":
                rad = 0.0
            elif rk == "tiny":
                rad = float("%.3g" % (10 ** r.uniform(-6, -4)))
            elif rk == "big":
                rad = round(r.uniform(20, 179), 2)
            else:
                rad = pick(r, [180.0, 90.0, 179.999, 179.999999, 179.9999999])
            rad = min(rad, 180.0)
            if 0.0 < rad < 1e-6:
                rad = 1e-6              # the quantifier: radii 0 and 1e-6 .. 180 degrees
            radii.append(rad)
            q = base if chance(r, 0.2) else draw_set(r, 60, region=base)
            if rad > 0 and base["n"] > 0 and chance(r, 0.08):
                q = {"kind": "shift", "of": base, "n": min(base["n"], r.randrange(1, 30)), "seed": r.randrange(1 << 30),
                     "dups": False, "rho": rad, "sign": pick(r, [1, -1])}
            op = {"k": "match", "m": m, "q": q, "self": q is base, "radius": rad,
                  "perpoint": chance(r, 0.25) and not (0.0 < rad < 5e-6), "rseed": r.randrange(1 << 30),
                  "maxmatch": wpick(r, [(-1, 3), (0, 2), (1, 3), (2, 2), (r.randrange(3, 8), 1), (1000, 1)]),
                  "sink": wpick(r, [("mem", 3), ("file", 2)]),
                  # (output names that differ only by a suffix an implementation might use for a scratch or backup file)
                  "path": "c%d_p%d.txt" % (c, r.randrange(2)) + wpick(r, [("", 10), (".tmp", 1), (".bak", 0.5), ("~", 0.5), (".part", 0.5)]),
                  "also": [a for a in ("oneshot", "depth2", "repeat") if chance(r, 0.35)],
                  "scalar_q": chance(r, 0.1), "c": c}
            if chance(r, 0.06):
                op["rty"] = "f4"
            if chance(r, 0.06):
                op["aslist"] = pick(r, ["list", "tuple"])
            if prop == "C15":
                op["pra"] = present.draw(r)
                op["pdec"] = present.draw(r)
            elif chance(r, 0.3):
                # C12's quantifier: byte-swapped and non-contiguous coordinate arrays (same values)
                op["pra"] = present.draw(r, allow_convert=False)
                op["pdec"] = present.draw(r, allow_convert=False)
            if op["sink"] == "file" and chance(r, 0.35):
                ops.append({"k": "stale", "p": op["path"], "n": r.randrange(10, 4000), "c": c})
            ops.append(op)
            if chance(r, 0.2):
                ops.append({"k": "match_bad", "m": m, "how": pick(r, ["size_mismatch", "radius_size", "unwritable"]),
                            "q": q, "radius": rad, "c": c})
        if chance(r, 0.45):
            # a long-lived one-shot HTM object fed from caller buffers that are refilled IN PLACE between calls
            nb = wpick(r, [(1, 1), (r.randrange(2, 12), 4), (r.randrange(12, 61), 2)])
            reg = draw_set(r, 60)
            orad = float("%.4g" % (reg.get("crad", 30.0) * 10 ** r.uniform(-2.0, 0.3)))
            orad = max(min(orad, 180.0), 1e-5)
            od = r.randrange(1, max_depth_for(orad) + 1)
            for j in range(r.randrange(2, 5)):
                fill = dict(draw_set(r, 60, region=reg), n=nb)
                q = fill if chance(r, 0.15) else draw_set(r, 40, region=reg)
                o = {"k": "oneshot", "H": "h%d" % c, "depth": od, "fill": fill, "q": q, "self": q is fill,
                     "radius": orad if chance(r, 0.7) else float("%.4g" % (orad * r.uniform(0.1, 1.0))),
                     "maxmatch": wpick(r, [(-1, 3), (0, 1), (1, 3), (2, 2), (r.randrange(3, 8), 1)]),
                     "sink": wpick(r, [("mem", 3), ("file", 1.5)]),
                     # the same output names as the matcher's calls use: one name is written by both entry points
                     "path": pick(r, ["c%d_o.txt" % c, "c%d_p0.txt" % c, "c%d_p1.txt" % c]),
                     "newbuf": chance(r, 0.15), "c": c}
                if chance(r, 0.3):
                    o["look"] = r.sample(["getters", "lookup", "intersect", "pickle"], r.randrange(1, 3))
                ops.insert(r.randrange(1, len(ops) + 1), o)
        if max(radii) > 179.9 and chance(r, 0.7):
            base["anti"] = True
        if chance(r, 0.35):
            # partners at about one of the search radii used on this matcher
            tw = pick(r, [x for x in radii if x > 0] or [scale * 0.01])
            base["twin"] = tw
            for o in ops:
                if o.get("k") == "match" and isinstance(o.get("q"), dict) and o["q"] is not base and chance(r, 0.5):
                    o["q"]["twin"] = o["radius"] if o["radius"] > 0 else tw
        # depth: jointly with the largest radius used on this matcher (cost bound)
        dmax = max_depth_for(max(radii))
        ops[0]["depth"] = r.randrange(1, dmax + 1) if not chance(r, 0.4) else dmax
        ops[0]["depth2"] = r.randrange(1, dmax + 1)
        if prop == "C15":
            ops[0]["pra"] = present.draw(r)
            ops[0]["pdec"] = present.draw(r)
        elif chance(r, 0.3):
            ops[0]["pra"] = present.draw(r, allow_convert=False)
            ops[0]["pdec"] = present.draw(r, allow_convert=False)
        callers.append(ops)
    hg = S.py("hugecover")
    if prop == "C12" and chance(hg, 0.002):
        # the expensive corner of (radius, depth): one search circle that covers tens of millions of leaf triangles (about
        # 2 s and 400 MB on the unchanged tree), against a set dense enough that thousands of partners lie inside
        depth, lo, hi = pick(hg, [(12, 42.0, 70.0), (13, 20.6, 30.0), (11, 92.0, 130.0), (12, 42.0, 50.0)])
        rad = round(hg.uniform(lo, hi), 3)
        cra, cdec = round(hg.uniform(0, 360), 4), round(math.degrees(math.asin(hg.uniform(-0.95, 0.95))), 4)
        big = {"kind": "cap", "n": hg.randrange(15000, 30000), "seed": hg.randrange(1 << 30), "dups": False,
               "cra": cra, "cdec": cdec, "crad": min(rad * 1.15, 179.0)}
        c = ncallers
        ncallers += 1
        callers.append([
            {"k": "build", "m": "m%d" % c, "set": big, "depth": depth, "depth2": hg.randrange(3, 9), "c": c},
            {"k": "match", "m": "m%d" % c, "q": {"kind": "cap", "n": 1, "seed": hg.randrange(1 << 30), "dups": False,
                                                "cra": cra, "cdec": cdec, "crad": 0.5},
             "self": False, "radius": rad, "perpoint": False, "rseed": 1, "maxmatch": -1, "sink": "mem",
             "path": "c%d_p0.txt" % c, "also": ["depth2"], "scalar_q": False, "c": c, "hugecover": True}])
    bq = S.py("bigquery")
    if prop == "C12" and chance(bq, 0.003):
        # a catalogue-sized FIRST set (more than 100 000 query points) against a small matcher: implementations that
        # work through long queries in blocks meet their block boundaries here
        cra, cdec = round(bq.uniform(0, 360), 4), round(math.degrees(math.asin(bq.uniform(-0.95, 0.95))), 4)
        crad = pick(bq, [0.5, 2.0, 10.0])
        small = {"kind": "cap", "n": bq.randrange(8, 30), "seed": bq.randrange(1 << 30), "dups": False,
                 "cra": cra, "cdec": cdec, "crad": crad}
        c = ncallers
        ncallers += 1
        rad_b = float("%.3g" % (crad * bq.uniform(0.02, 0.1)))
        callers.append([
            {"k": "build", "m": "m%d" % c, "set": small, "depth": bq.randrange(3, max(4, max_depth_for(rad_b) - 4)), "depth2": 4, "c": c},   # (cost: ~100 leaves per circle at most)
            {"k": "match", "m": "m%d" % c, "q": {"kind": "cap", "n": bq.randrange(100001, 140000), "seed": bq.randrange(1 << 30),
                                                "dups": False, "cra": cra, "cdec": cdec, "crad": crad},
             "self": False, "radius": rad_b, "perpoint": chance(bq, 0.3), "rseed": bq.randrange(1 << 30),
             "maxmatch": pick(bq, [-1, 1, 2]), "sink": pick(bq, ["mem", "mem", "file"]),
             "path": "c%d_p0.txt" % c, "also": [], "scalar_q": False, "c": c, "bigquery": True}])
    sched = S.py("schedule")
    idx = [0] * ncallers
    flat = []
    live = list(range(ncallers))
    while live:
        c = pick(sched, live)
        flat.append(callers[c][idx[c]])
        idx[c] += 1
        live = [k for k in live if idx[k] < len(callers[k])]
    return {"cfg": {}, "ops": flat}


def describe(script):
    return {"ops": script["ops"][:12], "n_ops": len(script["ops"])}


# =========================================================================== oracle

def brute(ra1, dec1, ra2, dec2, radius):
    """true separations (n1 x n2) in degrees"""
    return sep_deg(ra1[:, None], dec1[:, None], ra2[None, :], dec2[None, :])


def judge_pairs(run, feats, m1, m2, d12, S, radius, maxmatch, what):
    """S: true separations n1 x n2; radius: array n1.  Returns True when fine."""
    n1, n2 = S.shape
    run.checks += 1
    m1 = np.asarray(m1)
    m2 = np.asarray(m2)
    d12 = np.asarray(d12, dtype="f8")
    if not (m1.shape == m2.shape == d12.shape) or m1.ndim != 1:
        run.fail("htm.shape", feats, "%s: result arrays have shapes %r %r %r" % (what, m1.shape, m2.shape, d12.shape))
        return False
    if m1.size and (m1.dtype.kind not in "iu" or m2.dtype.kind not in "iu" or m1.min() < 0 or m1.max() >= n1 or m2.min() < 0 or m2.max() >= n2):
        run.fail("htm.index", feats, "%s: indices out of range" % what)
        return False
    # each pair once
    key = m1.astype("i8") * n2 + m2.astype("i8")
    if np.unique(key).size != key.size:
        run.fail("htm.duplicate", feats, "%s: a pair is reported more than once" % what)
        return False
    # grouped by first index in input order, non-decreasing separation inside a group
    if m1.size > 1:
        if np.any(np.diff(m1) < 0):
            run.fail("htm.grouping", feats, "%s: pairs are not grouped by first-set index in input order: m1=%r" % (what, m1[:30].tolist()))
            return False
        same = np.diff(m1) == 0
        if np.any(same & (np.diff(d12) < 0)):
            j = int(np.nonzero(same & (np.diff(d12) < 0))[0][0])
            run.fail("htm.order", feats, "%s: separations inside the group of point %d are not non-decreasing (%r then %r)"
                     % (what, int(m1[j]), d12[j], d12[j + 1]))
            return False
    # reported separations
    true = S[m1, m2] if m1.size else np.zeros(0)
    if m1.size:
        err = np.abs(d12 - true)
        run.margin("htm.separation", float(err.max()) / BAND)
        if np.any(err > BAND):
            j = int(np.argmax(err))
            run.fail("htm.separation", dict(feats, sep=_sepclass(true[j])),
                     "%s: pair (%d,%d) reported at %r deg, true separation %r deg" % (what, int(m1[j]), int(m2[j]), d12[j], true[j]))
            return False
        ident = true == 0.0
        if np.any(ident & (d12 != 0.0)):
            j = int(np.nonzero(ident & (d12 != 0.0))[0][0])
            run.fail("htm.identical", feats, "%s: identical points (%d,%d) matched at %r, not 0" % (what, int(m1[j]), int(m2[j]), d12[j]))
            return False
    rad = radius[:, None]
    inside = S < rad - BAND
    outside = S > rad + BAND
    got = np.zeros(S.shape, dtype=bool)
    got[m1, m2] = True
    extra = got & outside
    if np.any(extra):
        i, j = np.argwhere(extra)[0]
        run.fail("htm.extra", dict(feats, sep=_sepclass(S[i, j])), "%s: pair (%d,%d) at %r deg is outside the radius %r" % (what, i, j, S[i, j], radius[i]))
        return False
    if maxmatch <= 0:
        missing = inside & ~got
        if np.any(missing):
            i, j = np.argwhere(missing)[0]
            run.fail("htm.missing", dict(feats, sep=_sepclass(S[i, j])),
                     "%s: pair (%d,%d) at %r deg within radius %r is missing (%d of %d true pairs returned)"
                     % (what, i, j, S[i, j], radius[i], int((got & inside).sum()), int(inside.sum())))
            return False
    else:
        cnt = got.sum(axis=1)
        n_in = inside.sum(axis=1)
        n_maybe = (~outside).sum(axis=1)
        lo = np.minimum(maxmatch, n_in)
        hi = np.minimum(maxmatch, n_maybe)
        bad = (cnt < lo) | (cnt > hi)
        if np.any(bad):
            i = int(np.nonzero(bad)[0][0])
            run.fail("htm.maxmatch.count", feats, "%s: point %d has %d true matches, maxmatch=%d, %d returned" % (what, i, int(n_in[i]), maxmatch, int(cnt[i])))
            return False
        # the k closest: nothing unreturned and safely inside may be closer than the farthest returned
        for i in np.nonzero((cnt > 0) & (n_in > cnt))[0]:
            far = S[i][got[i]].max()
            rest = S[i][inside[i] & ~got[i]]
            if rest.size and rest.min() < far - BAND:
                run.fail("htm.maxmatch.closest", feats, "%s: point %d: returned a match at %r deg although an unreturned one is at %r deg"
                         % (what, int(i), far, rest.min()))
                return False
    return True


def _sepclass(s):
    return "<1e-4" if s < 1e-4 else ("<1" if s < 1 else ("<179" if s < 179 else ">=179"))


# =========================================================================== execute

class Skip(Exception):
    pass


def execute(script, run, env):
    from esutil import htm
    root = env.disk()
    judge = run.prop == "C12"
    c15 = run.prop == "C15"
    M = {}      # name -> dict(obj, ra, dec, depth, ncalls, last)
    _PAIRFILES.clear()
    del _EARLIER[:]
    del _HELD.items[:]
    HH = {}     # name -> dict(obj HTM, depth, bufs {n: (ra, dec)}, ncalls)
    ncallers = len(set(op.get("c", 0) for op in script["ops"]))
    prev_c = None
    for i, op in enumerate(script["ops"]):
        run.step = i
        c = op.get("c", 0)
        if prev_c is not None and c != prev_c and ncallers > 1:
            run.fault("interleaved_matchers")
        prev_c = c
        k = op["k"]
        if _HELD.items and judge:
            _HELD.settle(run, "htm.result_overwritten", {})
            if run.failures:
                break
        elif _HELD.items:
            del _HELD.items[:]
        try:
            if k == "build":
                ra, dec = points(op["set"])
                depth = op["depth"] or 5
                a_ra, a_dec, guards = ra, dec, []
                if c15 or "pra" in op:
                    a_ra, g1 = present.make(ra, op.get("pra"))
                    a_dec, g2 = present.make(dec, op.get("pdec"))
                    if c15:
                        guards = [("ra", g1), ("dec", g2)]
                    else:
                        run.fault("presented_" + g1["kind"])
                        run.fault("presented_" + g2["kind"])
                try:
                    obj = htm.Matcher(depth, a_ra, a_dec)
                except Exception as e:
                    run.event(c, "build", sdigest(op), "error(%s)" % type(e).__name__)
                    if judge:
                        run.fail("htm.build", {"depth": depth}, "Matcher(%d, %d points) raised %r" % (depth, ra.size, e))
                    continue
                _guards(run, guards, "Matcher()")
                M[op["m"]] = {"obj": obj, "ra": ra, "dec": dec, "depth": depth, "depth2": op.get("depth2", depth),
                              "ncalls": 0, "last": "new", "guards": guards}
                run.event(c, "build", sdigest(op), "ok", "%d@%d" % (ra.size, depth))
            elif k == "stale":
                with open(os.path.join(root, op["p"]), "w") as fh:
                    for j in range(op["n"]):
                        fh.write("%d %d %.16g\n" % (j, j + 1, 0.123456789 * j))
                _PAIRFILES.get(root, {}).pop(os.path.join(root, op["p"]), None)      # (the program itself replaced that file)
                run.event(c, "stale", op["p"], "ok")
            elif k == "match":
                do_match(run, op, M, htm, root, judge, c15)
            elif k == "match_bad":
                do_bad(run, op, M, htm, root, judge)
            elif k == "oneshot":
                do_oneshot(run, op, HH, htm, root, judge)
        except Skip as s:
            run.event(c, k, "", "skipped(%s)" % s)
        if run.failures:
            break
    if run.faults:
        run.nontrivial = True


_HELD = Held()     # pair arrays the caller still holds: verified unchanged, then edited, before the next operation
_EARLIER = []      # (name, guard) of arrays handed over in EARLIER calls of the current run (C15)


def _guards(run, guards, call):
    # arrays of earlier calls are still the caller's: a later call must not touch them either
    for nm, g in _EARLIER:
        if any(g is g2 for _n, g2 in guards):
            continue
        run.checks += 1
        bad = present.changed(g, None)
        if bad:
            run.fail("own.htm", {"call": call, "arg": nm, "present": g["kind"], "when": "earlier call"},
                     "htm %s modified the %s array (%s) that was handed to an EARLIER call: %s" % (call, nm, g["kind"], bad))
            return
    _EARLIER.extend((nm, g) for nm, g in guards if not any(g is g2 for _n, g2 in _EARLIER))
    for nm, g in guards:
        run.checks += 1
        run.nontrivial = True
        bad = present.changed(g, run)
        if bad:
            run.fail("own.htm", {"call": call, "arg": nm, "present": g["kind"]},
                     "htm %s modified its %s argument (%s): %s" % (call, nm, g["kind"], bad))


_PAIRFILES = {}       # scratch root of the run -> {path: (number of pairs, digest)} of the pair files written so far


def do_match(run, op, M, htm, root, judge, c15):
    m = M.get(op["m"])
    if m is None:
        raise Skip("no matcher")
    c = op.get("c", 0)
    if op.get("self"):
        qra, qdec = m["ra"].copy(), m["dec"].copy()
    else:
        qra, qdec = points(op["q"])
    n1 = qra.size
    r32 = None
    if op.get("rty") == "f4" and not (op["perpoint"] and n1 > 1) and op["radius"] >= 1e-5:
        # the search radius is a numpy.float32 scalar (a value out of a single-precision table): the radius IS its value
        r32 = np.float32(op["radius"])
        op = dict(op, radius=float(r32))
        run.fault("radius_given_as_a_float32_scalar")
    if op["perpoint"] and n1 > 1:
        g = np.random.Generator(np.random.PCG64(op["rseed"]))
        radius = op["radius"] * g.uniform(0.2, 1.0, n1)
        rad_arg = radius.copy()
    else:
        radius = np.full(n1, float(op["radius"]))
        rad_arg = op["radius"] if chance_det(op["rseed"]) else np.array([float(op["radius"])])     # (an int stays an int)
        if r32 is not None:
            rad_arg = r32
    maxmatch = op["maxmatch"]
    sink = op["sink"]
    path = os.path.join(root, op["path"])
    feats = {"maxmatch": "all" if maxmatch <= 0 else ("1" if maxmatch == 1 else "k"), "sink": sink,
             "depth": m["depth"], "rclass": _sepclass(op["radius"])}
    st = "depth=%s|calls=%d|last=%s" % ("shallow" if m["depth"] <= 4 else ("mid" if m["depth"] <= 9 else "deep"),
                                        min(3, m["ncalls"]), m["last"])
    pstate = "absent" if not os.path.exists(path) else "present"
    run.states.add(st)
    run.trans.add("%s|match|mm=%s|r=%s|sink=%s:%s" % (st, feats["maxmatch"], feats["rclass"], sink, pstate if sink == "file" else ""))
    if op.get("hugecover"):
        run.fault("search_circle_covers_millions_of_leaves")
    if op.get("bigquery"):
        run.fault("first_set_of_more_than_100000_points")
    if m["ncalls"] > 0:
        run.fault("matcher_reused")
    if m["last"] == "rejected":
        run.fault("match_after_rejected_call")
    a_ra, a_dec, guards = qra, qdec, []
    if op.get("scalar_q") and n1 == 1:
        a_ra, a_dec = float(qra[0]), float(qdec[0])
    elif c15 or "pra" in op:
        a_ra, g1 = present.make(qra, op.get("pra"))
        a_dec, g2 = present.make(qdec, op.get("pdec"))
        gs = [("ra", g1), ("dec", g2)]
        if isinstance(rad_arg, np.ndarray) and rad_arg.size > 1:
            rad_arg, g3 = present.make(rad_arg, op.get("pra"))
            gs.append(("radius", g3))
        if c15:
            guards = gs
        else:
            for _nm, g in gs:
                run.fault("presented_" + g["kind"])
    if op.get("aslist") and not c15 and "pra" not in op and isinstance(a_ra, np.ndarray) and n1 <= 200:
        # the coordinates handed over as plain Python lists / tuples of floats
        a_ra = a_ra.tolist() if op["aslist"] == "list" else tuple(a_ra.tolist())
        a_dec = a_dec.tolist() if op["aslist"] == "list" else tuple(a_dec.tolist())
        run.fault("coordinates_given_as_python_sequences")
    kw = {"maxmatch": maxmatch}      # (a numpy integer here is refused by the SWIG wrapper with a TypeError: a limitation, not a C12 matter)
    stale = False
    if sink == "file":
        kw["file"] = path
        if os.path.exists(path):
            stale = True
            run.fault("stale_pair_file_at_output_path")
    what = "Matcher(depth=%d, %d pts).match(%d pts, radius=%s, maxmatch=%d%s)" % (
        m["depth"], m["ra"].size, n1, ("%r" % op["radius"]) + ("*per-point" if op["perpoint"] and n1 > 1 else ""), maxmatch,
        ", file=" + op["path"] if sink == "file" else "")
    try:
        res = m["obj"].match(a_ra, a_dec, rad_arg, **kw)
    except Exception as e:
        m["last"] = "error"
        m["ncalls"] += 1
        run.event(c, "match", sdigest(op), "error(%s)" % type(e).__name__)
        if judge:
            run.fail("htm.raises", feats, "%s raised %r" % (what, e))
        return
    m["ncalls"] += 1
    m["last"] = "ok"
    _guards(run, guards, "Matcher.match")
    _guards(run, m["guards"], "Matcher.match (arrays given at construction)")
    if sink == "file":
        try:
            pairs = htm.read_pairs(path)
            m1, m2, d12 = pairs["i1"], pairs["i2"], pairs["d12"]
        except Exception as e:
            run.event(c, "match", sdigest(op), "readpairs-error(%s)" % type(e).__name__)
            if judge:
                run.fail("htm.read_pairs", dict(feats, npairs=int(res) if isinstance(res, (int, np.integer)) else -1),
                         "%s wrote %r pairs; read_pairs raised %r" % (what, res, e))
            return
        if judge:
            run.checks += 1
            if int(res) != m1.size:
                run.fail("htm.file.count", feats, "%s returned %r but the file holds %d pairs%s" % (what, res, m1.size, " (a longer file was at the path before)" if stale else ""))
                return
            # the pair files this program wrote EARLIER under other names are still there and still hold their pairs
            book = _PAIRFILES.setdefault(root, {})
            for p_old, (n_old, dg_old) in list(book.items()):
                if p_old == path:
                    continue
                try:
                    po = htm.read_pairs(p_old)
                    now = (int(po["i1"].size), adigest((np.asarray(po["i1"]), np.asarray(po["i2"]))))
                except Exception as e:
                    now = ("unreadable", type(e).__name__)
                run.checks += 1
                if now != (n_old, dg_old):
                    run.fail("htm.file.earlier", dict(feats, other=os.path.basename(p_old)),
                             "after %s the pair file %s written earlier (%d pairs) is %s"
                             % (what, os.path.basename(p_old), n_old, "gone or unreadable (%s)" % now[1] if now[0] == "unreadable" else "different (%d pairs)" % now[0]))
                    return
            book[path] = (int(m1.size), adigest((np.asarray(m1), np.asarray(m2))))
            if len(book) > 1:
                run.fault("earlier_pair_files_read_again")
    else:
        if not (isinstance(res, tuple) and len(res) == 3):
            if judge:
                run.fail("htm.shape", feats, "%s returned %r" % (what, type(res)))
            return
        m1, m2, d12 = res
    run.event(c, "match", sdigest(op), "ok", adigest((np.asarray(m1), np.asarray(m2), np.asarray(d12))))
    if not judge:
        return
    S = brute(qra, qdec, m["ra"], m["dec"], radius)
    if not judge_pairs(run, feats, m1, m2, d12, S, radius, maxmatch, what):
        return
    also = op.get("also", [])
    if sink == "file":
        # file pairs == memory pairs
        run.checks += 1
        r2 = m["obj"].match(qra, qdec, rad_arg if not isinstance(rad_arg, np.ndarray) or rad_arg.size == 1 else radius, maxmatch=maxmatch)
        if not (np.array_equal(r2[0], m1) and np.array_equal(r2[1], m2)):
            run.fail("htm.file.pairs", feats, "%s: pairs read back from the file differ from the in-memory result" % what)
            return
        if m1.size and np.any(np.abs(r2[2] - d12) > 1e-15 * np.maximum(np.abs(d12), 1e-300) * 4 + 1e-300):
            run.fail("htm.file.sep", feats, "%s: separations in the file differ from memory beyond %%.16g" % what)
            return
    if "repeat" in also:
        run.checks += 1
        r2 = m["obj"].match(qra, qdec, radius if op["perpoint"] and n1 > 1 else float(op["radius"]), maxmatch=maxmatch)
        r3 = m["obj"].match(qra, qdec, radius if op["perpoint"] and n1 > 1 else float(op["radius"]), maxmatch=maxmatch)
        if not all(np.asarray(a).tobytes() == np.asarray(b).tobytes() for a, b in zip(r2, r3)):
            run.fail("htm.repeat", feats, "%s: the same question asked twice gives different answers" % what)
            return
    if "oneshot" in also:
        run.checks += 1
        run.probe("oneshot_compared")
        try:
            o = htm.HTM(m["depth"]).match(qra, qdec, m["ra"], m["dec"], radius if op["perpoint"] and n1 > 1 else float(op["radius"]), maxmatch=maxmatch)
        except Exception as e:
            run.fail("htm.oneshot", feats, "HTM(%d).match raised %r where the Matcher works" % (m["depth"], e))
            return
        if sink == "mem":
            a = (np.asarray(m1), np.asarray(m2), np.asarray(d12))
        else:
            a = r2
        if not (np.array_equal(o[0], a[0]) and np.array_equal(o[1], a[1])) or (a[2].size and np.max(np.abs(o[2] - a[2])) > 1e-12):
            run.fail("htm.oneshot", feats, "%s and the one-shot HTM.match return different pairs" % what)
            return
    if "depth2" in also and m["depth2"] != m["depth"]:
        run.checks += 1
        run.probe("second_depth_compared")
        o = htm.Matcher(m["depth2"], m["ra"], m["dec"]).match(qra, qdec, radius if op["perpoint"] and n1 > 1 else float(op["radius"]), maxmatch=-1)
        judge_pairs(run, dict(feats, depth=m["depth2"], via="depth2"), o[0], o[1], o[2], S, radius, -1,
                    "Matcher(depth=%d) on the same points" % m["depth2"])
    # the caller owns the index/separation arrays it was handed
    _HELD.hold((m1, m2, d12))


def do_oneshot(run, op, HH, htm, root, judge):
    """HTM(depth).match on ONE long-lived HTM object; the second point set lives in caller buffers
    that are refilled in place from call to call (same array objects, new contents)."""
    c = op.get("c", 0)
    h = HH.get(op["H"])
    if h is None or h["depth"] != op["depth"]:
        h = HH[op["H"]] = {"obj": htm.HTM(op["depth"]), "depth": op["depth"], "bufs": {}, "ncalls": 0}
    ra2v, dec2v = points(op["fill"])
    n2 = ra2v.size
    buf = h["bufs"].get(n2)
    if buf is None or op.get("newbuf"):
        buf = h["bufs"][n2] = (np.empty(n2), np.empty(n2))
    else:
        run.fault("oneshot_buffer_refilled_in_place")
    buf[0][:] = ra2v
    buf[1][:] = dec2v
    if op.get("self"):
        qra, qdec = ra2v.copy(), dec2v.copy()
    else:
        qra, qdec = points(op["q"])
    n1 = qra.size
    radius = np.full(n1, float(op["radius"]))
    maxmatch = op["maxmatch"]
    feats = {"maxmatch": "all" if maxmatch <= 0 else ("1" if maxmatch == 1 else "k"), "sink": op["sink"],
             "depth": op["depth"], "rclass": _sepclass(op["radius"]), "via": "oneshot"}
    st = "oneshot|calls=%d" % min(3, h["ncalls"])
    run.states.add(st)
    run.trans.add("%s|mm=%s|r=%s|sink=%s" % (st, feats["maxmatch"], feats["rclass"], op["sink"]))
    if h["ncalls"] > 0:
        run.fault("oneshot_object_reused")
    h["ncalls"] += 1
    for what in op.get("look", []):
        # other uses of the same long-lived HTM object between matches: its cheap getters, id look-ups, a circle
        # intersection, a trip through pickle (the object is then the restored copy)
        try:
            if what == "getters":
                h["obj"].get_depth(), h["obj"].get_area(), h["obj"].get_ntriangles()
            elif what == "lookup" and n1:
                h["obj"].lookup_id(qra.copy(), qdec.copy())
            elif what == "intersect" and n1:
                h["obj"].intersect(float(qra[0]), float(qdec[0]), min(float(op["radius"]), 90.0 / 2 ** op["depth"] * 20))
            elif what == "pickle":
                import pickle
                h["obj"] = pickle.loads(pickle.dumps(h["obj"]))
        except Exception:
            pass
        run.fault("oneshot_object_used_for_something_else_in_between")
    kw = {"maxmatch": maxmatch}
    path = os.path.join(root, op["path"])
    _PAIRFILES.get(root, {}).pop(path, None)          # (a name the one-shot call is about to write, or may write)
    if op["sink"] == "file":
        kw["file"] = path
    what = "long-lived HTM(%d).match(%d pts, buffers[%d] refilled in place, radius=%r, maxmatch=%d%s) call #%d" % (
        op["depth"], n1, n2, op["radius"], maxmatch, ", file" if op["sink"] == "file" else "", h["ncalls"])
    try:
        res = h["obj"].match(qra, qdec, buf[0], buf[1], float(op["radius"]), **kw)
        if op["sink"] == "file":
            pairs = htm.read_pairs(path)
            res = (pairs["i1"], pairs["i2"], pairs["d12"])
    except Exception as e:
        run.event(c, "oneshot", sdigest(op), "error(%s)" % type(e).__name__)
        if judge:
            run.fail("htm.raises", feats, "%s raised %r" % (what, e))
        return
    m1, m2, d12 = res
    run.event(c, "oneshot", sdigest(op), "ok", adigest((np.asarray(m1), np.asarray(m2), np.asarray(d12))))
    if not judge:
        return
    S = brute(qra, qdec, ra2v, dec2v, radius)
    judge_pairs(run, feats, m1, m2, d12, S, radius, maxmatch, what)
    _HELD.hold((m1, m2, d12))


def chance_det(seed):
    return (seed % 2) == 0


def do_bad(run, op, M, htm, root, judge):
    m = M.get(op["m"])
    if m is None:
        raise Skip("no matcher")
    c = op.get("c", 0)
    qra, qdec = points(op["q"]) if not op.get("self") else (m["ra"], m["dec"])
    how = op["how"]
    try:
        if how == "size_mismatch":
            if qra.size < 2:
                raise Skip("needs 2 points")
            m["obj"].match(qra, qdec[:-1], op["radius"])
        elif how == "radius_size":
            if qra.size < 3:
                raise Skip("needs 3 points")
            m["obj"].match(qra, qdec, np.full(qra.size - 1, op["radius"]))
        else:
            m["obj"].match(qra, qdec, op["radius"], file=os.path.join(root, "no_such_dir", "pairs.txt"))
        out = "accepted"
    except Skip:
        raise
    except Exception as e:
        out = "rejected(%s)" % type(e).__name__
        run.fault("rejected_call_" + how)
    m["last"] = "rejected"
    m["ncalls"] += 1
    run.event(c, "match_bad", how, out.split("(")[0])


def simplify(script):
    ops = script["ops"]
    if any(op.get("c", 0) != 0 for op in ops):
        c = dict(script)
        c["ops"] = [dict(op, c=0) for op in ops]
        yield c
    for i, op in enumerate(ops):
        for key in ("set", "q", "fill"):
            if key in op and isinstance(op[key], dict) and op[key]["n"] > 1:
                for nn in (1, 2, op[key]["n"] // 2):
                    if 1 <= nn < op[key]["n"]:
                        c = dict(script)
                        c["ops"] = ops[:i] + [dict(op, **{key: dict(op[key], n=nn)})] + ops[i + 1:]
                        if key == "set":
                            # queries that reuse the matcher's own set follow automatically ("self")
                            pass
                        yield c
        if "pra" in op and script.get("prop") != "C15":
            c = dict(script)
            c["ops"] = ops[:i] + [dict((a, b) for a, b in op.items() if a not in ("pra", "pdec"))] + ops[i + 1:]
            yield c
        if op["k"] == "match":
            for key, val in (("also", []), ("perpoint", False), ("sink", "mem"), ("maxmatch", -1), ("scalar_q", False)):
                if op.get(key) != val:
                    c = dict(script)
                    c["ops"] = ops[:i] + [dict(op, **{key: val})] + ops[i + 1:]
                    yield c
        if op["k"] == "build" and op.get("depth", 1) > 1:
            for d in (1, op["depth"] - 1):
                c = dict(script)
                c["ops"] = ops[:i] + [dict(op, depth=d)] + ops[i + 1:]
                yield c
