"""
Planner for recsim: turns named streams into a concrete, interleaved operation list.
Each logical caller works on its own paths; a file may be shared read-only.
"""
import copy

from ..kernel import chance, pick, wpick
from ..refs import rectab as T
from .. import present

DELIMS_ALL = [",", ":", "\t", " ", ";", "|"]
DELIMS_C02 = [",", ":", "\t", " "]
DELIMS_C03 = [",", "\t", " "]

# "*.reused": one long-lived SFile / Recfile object per caller, re-open()ed for every file it touches
# (writes and reads alike, closed or left open in between); listed twice to make repeated use likely
SF_CREATE = ["sfile.write", "sfile.write_swapped", "SFile.ctx", "io.write", "SFile.reused", "SFile.reused"]
RAW_CREATE = ["recfile.write", "Recfile.ctx", "recfile.Open", "Recfile.reused", "Recfile.reused"]
SF_READ_BASIC = ["sfile.read", "sfile.read_hdr", "SFile.read", "SFile.getitem", "SFile.nocontext", "io.read",
                 "io.read_hdr", "SFile.reused", "SFile.reused", "SFile.printed"]
SF_READ = SF_READ_BASIC + ["Recfile.offset", "Recfile.offset_count", "recfile.read.offset", "io.read_dtype_offset",
                           "Recfile.reused.offset"]
RAW_READ = ["recfile.read", "recfile.read_nrows", "Recfile.read", "Recfile.getitem", "Recfile.descr", "io.read_dtype",
            "Recfile.reused", "Recfile.reused"]
HDR_READ = ["sfile.read_header", "io.read_header", "io.read_header_only", "SFile.read_header"]


def _avoid(avoid, **kv):
    """True when some open finding's features are all matched by kv (so: steer away)."""
    for e in avoid:
        f = e.get("features", {})
        if f and all(k in kv and (kv[k] in v if isinstance(v, list) else kv[k] == v) for k, v in f.items()):
            return True
    return False


def draw_nrows(r, small=False):
    if small:
        return wpick(r, [(1, 1), (2, 1), (r.randrange(3, 9), 4), (r.randrange(9, 40), 2)])
    return wpick(r, [(1, 1.5), (2, 1), (r.randrange(3, 17), 5), (r.randrange(17, 65), 3),
                     (r.randrange(300, 6001), 0.5)])


def draw_table(r, form, delim=None, simple=False, strsafe=False, nrows=None, fields=None, small=False, huge=False):
    if fields is None and nrows is None and chance(r, 0.04):
        # size coincidences: rows of 2**m bytes and 2**k of them, so that the data region is an exact multiple
        # of the block and buffer sizes a reader or writer may work in (4 KiB .. 64 KiB, rarely 16 MiB)
        fields = T.draw_fields_pow2(r, form)
        if form == "bin":
            rowsize = sum({"1": 1, "2": 2, "4": 4, "8": 8}.get(f["t"][1:], int(f["t"][1:]) if f["t"][0] == "S" else 8) for f in fields)
            lg = (rowsize - 1).bit_length()
            k = wpick(r, [(r.randrange(6, 13), 6), (13, 2), (16 - lg, 3), (17 - lg, 1), (24 - lg, 0.12 if huge else 0)])
        else:
            rowchars = sum(int(f["t"][1:]) for f in fields) + len(fields)
            lg = (rowchars - 1).bit_length()
            k = wpick(r, [(16 - lg, 5), (17 - lg, 2), (12 - lg, 2), (r.randrange(6, 12), 2)])
        n = 2 ** max(0, k)
        n += wpick(r, [(0, 6), (1, 1), (-1, 1)]) if n > 2 else 0
        return {"fields": fields, "nrows": n, "dseed": r.randrange(1 << 30)}
    if fields is None and nrows is None and chance(r, 0.012):
        # very many columns: more than 64 (a machine word of column flags), rarely many hundreds (a header of tens of
        # kilobytes) -- the quantifiers put no bound on the number of fields
        nf = wpick(r, [(r.randrange(65, 140), 5), (r.randrange(300, 1300), 1)])
        types = ["i4", "f8", "i2", "S3", "u1", "f4", "i8"] if form == "bin" else ["i4", "f8", "i2", "S3", "u1", "f4", "i8"]
        order = pick(r, ["<", ">"])
        fields = [{"n": "c%d" % i, "t": pick(r, types), "s": [], "o": order, "p": "simple"} for i in range(nf)]
        return {"fields": fields, "nrows": r.randrange(1, 6), "dseed": r.randrange(1 << 30)}
    if fields is None and nrows is None and form == "txt" and not small and chance(r, 0.004):
        # a text table whose rows, as an array, come to just about a whole number of MiB (itemsizes that do not divide
        # 2**20: 12, 20, 24, 40 bytes): block-wise conversion of the array meets its last block here
        types = pick(r, [["i4", "i8"], ["i8", "i8", "i8"], ["i4", "f8", "i8"], ["i8", "f8", "i8", "i8", "f8"], ["i2", "i2", "i8", "i8"]])
        order = pick(r, [">", ">", "<"])
        fields = [{"n": "m%d" % i, "t": t, "s": [], "o": order, "p": "simple"} for i, t in enumerate(types)]
        item = sum(int(t[1:]) for t in types)
        unit = (2 ** 20) // item
        n = unit * pick(r, [1, 1, 2]) + pick(r, [-1, 0, 1, 2, 3, unit // 2])
        return {"fields": fields, "nrows": n, "dseed": r.randrange(1 << 30)}
    if fields is None and nrows is None and form == "txt" and chance(r, 0.012):
        # very long text rows (a 2-d sub-array column of a few thousand numbers: 20 .. 120 k characters per row),
        # longer than any line buffer a reader may use
        k = r.randrange(40, 72)
        fields = [{"n": "img", "t": pick(r, ["f8", "f8", "i8", "f4"]), "s": [k, k], "o": pick(r, ["<", ">"]), "p": pick(r, ["wide", "simple"])}]
        if chance(r, 0.5):
            fields.insert(r.randrange(0, 2), {"n": "id", "t": "i4", "s": [], "o": fields[0]["o"], "p": "simple"})
        return {"fields": fields, "nrows": r.randrange(2, 7), "dseed": r.randrange(1 << 30)}
    if fields is None:
        fields = T.draw_fields(r, form, simple=simple)
        if strsafe:
            for f in fields:
                if f["t"][0] == "S":
                    f["p"] = "simple"
    n = nrows if nrows is not None else draw_nrows(r, small)
    if len(fields) > 12:
        n = min(n, 40)
    return {"fields": fields, "nrows": n, "dseed": r.randrange(1 << 30)}


def incompatible(r, fields, form):
    """a field list that differs from `fields` in name, type, shape, count or (binary) byte order"""
    f2 = copy.deepcopy(fields)
    kinds = ["name", "type", "shape", "count_more", "count_less"] + (["order"] if form == "bin" else [])
    for _ in range(8):
        k = pick(r, kinds)
        i = r.randrange(len(f2))
        if k == "name":
            f2[i]["n"] = f2[i]["n"] + "_x"
            return f2, k
        if k == "type":
            t = f2[i]["t"]
            cand = [c for c in ("i2", "i4", "i8", "f4", "f8", "u4", "S3", "S7") if c != t]
            f2[i]["t"] = pick(r, cand)
            return f2, k
        if k == "shape":
            f2[i]["s"] = [2] if not f2[i]["s"] else (f2[i]["s"] + [2] if len(f2[i]["s"]) < 2 else [f2[i]["s"][0] + 1, f2[i]["s"][1]])
            return f2, k
        if k == "count_more":
            f2.append({"n": "extra_col", "t": "i4", "s": [], "o": f2[0]["o"], "p": "simple"})
            return f2, k
        if k == "count_less" and len(f2) > 1:
            f2.pop(i)
            return f2, k
        if k == "order":
            multi = [j for j, f in enumerate(f2) if f["t"][0] not in "Sb" and f["t"] not in ("i1", "u1")]
            if multi:
                for j in multi:
                    f2[j]["o"] = "<" if f2[j]["o"] == ">" else ">"
                return f2, k
    f2[0]["n"] = f2[0]["n"] + "_x"
    return f2, "name"


def other_order(fields):
    f2 = copy.deepcopy(fields)
    for f in f2:
        f["o"] = "<" if f["o"] == ">" else ">"
    return f2


# =========================================================================== per-property callers

def caller_roundtrip(r, pfx, form, avoid, delims):
    """C01 (form='bin') / C04 (form='txt'): create -> read through every kind of reader."""
    ops = []
    nfiles = wpick(r, [(1, 3), (2, 2)])
    paths = ["%sf%d.rec" % (pfx, j) for j in range(nfiles)]
    for p in paths:
        delim = pick(r, delims) if form == "txt" else None
        fform = wpick(r, [("sfile", 3), ("raw", 1)])
        if chance(r, 0.2):
            ops.append({"k": "stale", "p": p, "what": pick(r, ["garbage", "fakehdr", "lines"]),
                        "n": pick(r, [10, 300, 5000, 100000]), "seed": r.randrange(1 << 20)})
        if chance(r, 0.15):
            # the path previously held the other form (or an older, longer file)
            od = None if form == "txt" else pick(r, delims or DELIMS_ALL)
            ops.append({"k": "create", "p": p, "form": "sfile", "delim": od, "entry": pick(r, SF_CREATE),
                        "tab": draw_table(r, "txt" if od else "bin", od, simple=True, nrows=r.randrange(50, 400)),
                        "hdr": None})
        tab = draw_table(r, form, delim, huge=(form == "bin"))
        hdr = T.gen_header(r) if fform == "sfile" else None
        if chance(r, 0.25 if form == "txt" else 0.12):
            # C04: the table reaches the file in several blocks through ONE writer handle, later blocks in
            # the same or the other byte order (a text file is byte-order free)
            h = "%sw%d" % (pfx, len(ops))
            ops.append({"k": "open_w", "h": h, "p": p, "kind": "SFile" if fform == "sfile" else "Recfile",
                        "mode": "w", "delim": delim})
            ops.append({"k": "write", "h": h, "tab": tab, "hdr": hdr})
            if fform == "sfile" and chance(r, 0.12):
                ops[-1]["badhdr"] = pick(r, ["pairs", "nocopy"])
                ops[-1]["badhdr_other"] = chance(r, 0.5)
            for _ in range(r.randrange(1, 3)):
                f = tab["fields"] if (form == "bin" or chance(r, 0.35)) else other_order(tab["fields"])
                if chance(r, 0.08):
                    ops.append({"k": "write", "h": h, "tab": {"fields": f, "nrows": 0, "dseed": 1}, "hdr": None})
                ops.append({"k": "write", "h": h, "tab": {"fields": f, "nrows": draw_nrows(r, small=True),
                                                          "dseed": r.randrange(1 << 30)}, "hdr": None})
            ops.append({"k": "close", "h": h, "drop": True} if chance(r, 0.3) else {"k": "close", "h": h})
        else:
            op = {"k": "create", "p": p, "form": fform, "delim": delim,
                  "entry": pick(r, SF_CREATE if fform == "sfile" else RAW_CREATE), "tab": tab, "hdr": hdr}
            if fform == "sfile" and chance(r, 0.3):
                # the header dict comes from an earlier file of this caller (or from the file about to be replaced)
                op["hdr_from"] = pick(r, paths)
            elif fform == "sfile" and chance(r, 0.004):
                op["hdr_big"] = r.randrange(20000, 40000)
            elif fform == "sfile" and chance(r, 0.06):
                # a long user header, padded so that the END line of the stored header lands on (or a few bytes
                # before) a multiple of a block size a header reader may work in
                op["hdr_align"] = {"block": pick(r, [1024, 4096, 8192, 16384, 65536]), "back": r.randrange(0, 7),
                                   "mult": r.randrange(1, 3)}
            ops.append(op)
            if form == "txt" and chance(r, 0.2):
                f = tab["fields"] if chance(r, 0.35) else other_order(tab["fields"])
                ents = ["sfile.write.append", "io.write.append", "SFile.r+"] if fform == "sfile" else ["Recfile.r+", "recfile.write.r+"]
                ops.append({"k": "append", "p": p, "entry": pick(r, ents), "delim": delim,
                            "tab": {"fields": f, "nrows": draw_nrows(r, small=True), "dseed": r.randrange(1 << 30)},
                            "hdr": None})
        if chance(r, 0.15 if form == "txt" else 0.08):
            # the file is taken up again through ONE r+ object: rows are added and read back through that object
            h = "%su%d" % (pfx, len(ops))
            ops.append({"k": "open_w", "h": h, "p": p, "kind": "SFile" if fform == "sfile" else "Recfile", "mode": "r+",
                        "nrows": pick(r, ["given", "count"])})
            for _ in range(r.randrange(1, 3)):
                if chance(r, 0.3):
                    ops.append({"k": "hread", "h": h, "sel": {"style": pick(r, ["read_kw", "getitem_rows"])}})
                f = tab["fields"] if (form == "bin" or chance(r, 0.5)) else other_order(tab["fields"])
                ops.append({"k": "write", "h": h, "tab": {"fields": f, "nrows": draw_nrows(r, small=True),
                                                          "dseed": r.randrange(1 << 30)}, "hdr": None})
                sel = {"style": pick(r, ["read_kw", "getitem_rows"])}
                if chance(r, 0.4):
                    sel = {"style": "getitem_rows", "rows": {"t": "slice", "v": pick(r, [[-2, None, None], [0, 2, None], [-1, None, None],
                                                                                          [1, None, 2]])}}
                ops.append({"k": "hread", "h": h, "sel": sel})
            ops.append({"k": "close", "h": h, "drop": True} if chance(r, 0.25) else {"k": "close", "h": h})
        for _ in range(r.randrange(1, 5)):
            if fform == "sfile" and chance(r, 0.25):
                ops.append({"k": "header", "p": p, "entry": pick(r, HDR_READ)})
            else:
                ops.append({"k": "read", "p": p, "entry": pick(r, SF_READ if fform == "sfile" else RAW_READ)})
        if chance(r, 0.06):
            # the file is replaced by the same columns in another order (same size), within one tick of a coarse file clock
            f2 = list(tab["fields"])
            if len(f2) > 1:
                f2 = f2[1:] + f2[:1]
            ops.append({"k": "create", "p": p, "form": fform, "delim": delim, "entry": pick(r, SF_CREATE if fform == "sfile" else RAW_CREATE),
                        "tab": dict(tab, fields=f2, dseed=r.randrange(1 << 30)), "hdr": hdr, "same_tick": True})
            for _ in range(r.randrange(1, 3)):
                ops.append({"k": "read", "p": p, "entry": pick(r, SF_READ if fform == "sfile" else RAW_READ)})
        if chance(r, 0.15):
            # overwrite with a different table, then read again
            tab2 = draw_table(r, form, delim)
            ops.append({"k": "create", "p": p, "form": fform, "delim": delim,
                        "entry": pick(r, SF_CREATE if fform == "sfile" else RAW_CREATE), "tab": tab2,
                        "hdr": T.gen_header(r) if fform == "sfile" else None})
            ops.append({"k": "read", "p": p, "entry": pick(r, SF_READ if fform == "sfile" else RAW_READ)})
    if nfiles == 2 and chance(r, 0.5):
        # one live reader object re-opened on the other file
        h = pfx + "h0"
        kind = pick(r, ["SFile", "Recfile"])
        ops.append({"k": "open_r", "h": h, "p": paths[0], "kind": kind, "nrows": pick(r, ["given", "count"])})
        ops.append({"k": "hread", "h": h, "sel": {"style": pick(r, ["read_kw", "getitem_rows"])}})
        ops.append({"k": "reopen_obj", "h": h, "p": paths[1], "nrows": pick(r, ["given", "count"])})
        ops.append({"k": "hread", "h": h, "sel": {"style": pick(r, ["read_kw", "getitem_rows"])}})
        ops.append({"k": "close", "h": h})
    return ops


def draw_selection(r, fields, n, kind, form_sfile):
    names = [f["n"] for f in fields]
    rk = wpick(r, [("none", 2), ("scalar", 2), ("list", 4), ("slice", 5)])
    rows = None
    if rk == "scalar":
        rows = {"t": "scalar", "v": r.randrange(-n, n), "st": pick(r, ["py", "py", "py", "i8", "i4", "i2", "i1", "u1", "u2"])}
        if chance(r, 0.3):
            rows["v"] = pick(r, [-1, -n, n - 1, 0] + ([-2] if n >= 2 else []))   # the last / the first row, from either end
    elif rk == "list":
        k = wpick(r, [(1, 1), (2, 1), (r.randrange(1, n + 1), 3), (r.randrange(1, 2 * n + 1), 1)])
        v = [r.randrange(0, n) for _ in range(k)]
        if chance(r, 0.3):
            v = sorted(v)
        if chance(r, 0.15):
            v = list(range(n))
            r.shuffle(v)
        rows = {"t": "list", "v": v, "c": pick(r, ["list", "tuple", "array"]),
                "dt": pick(r, ["i8", "i4", "u2"] if n < 60000 else ["i8", "i4"])}
    elif rk == "slice":
        def bound():
            return None if chance(r, 0.25) else r.randrange(-n - 2, n + 3)
        step = wpick(r, [(None, 3), (1, 2), (2, 2), (3, 1), (r.randrange(1, n + 3), 1)])
        rows = {"t": "slice", "v": [bound(), bound(), step]}
        if chance(r, 0.3):
            # subsampling to (about) the end of the table: [s::step] and friends
            step = pick(r, [2, 2, 3, 4, 5, 8, 16])
            rows = {"t": "slice", "v": [r.randrange(0, step), pick(r, [None, None, n, n - 1, n + 1, -1]), step]}
    ck = wpick(r, [("none", 3), ("name", 3), ("list", 4)])
    cols = None
    if ck == "name":
        cols = {"t": "name", "v": pick(r, names)}
    elif ck == "list":
        k = r.randrange(1, len(names) + 1)
        v = r.sample(names, k)
        if chance(r, 0.3):
            v = [x for x in names if x in v]
        cols = {"t": "list", "v": v, "c": pick(r, ["list", "tuple", "array"])}
    styles = [("read_kw", 4), ("read_fields", 1.5), ("getitem_rows", 3), ("cols_then_rows", 4),
              ("cols_read_rows", 1.5), ("split", 1.5), ("reduce", 1.5 if kind == "SFile" else 0)]
    style = wpick(r, styles)
    sel = {"style": style}
    if rows is not None:
        sel["rows"] = rows
    if cols is not None:
        sel["cols"] = cols
    # make the combination expressible
    if style in ("read_kw", "read_fields", "split", "reduce", "cols_read_rows") and rows is not None and rows["t"] == "slice":
        sel["style"] = "cols_then_rows" if cols is not None else "getitem_rows"
    if sel["style"] == "getitem_rows" and cols is not None:
        sel["style"] = "cols_then_rows"
    if sel["style"] in ("cols_then_rows", "cols_read_rows") and cols is None:
        sel["style"] = "getitem_rows" if (rows is None or rows["t"] != "list" or True) else "read_kw"
    if sel["style"] == "cols_then_rows" and rows is None:
        sel["all"] = pick(r, ["slice", "read"])
    return sel


def caller_subsets(r, pfx, avoid):
    """C02: one or two stored tables, 1-3 reader handles, 3-12 selections spread over them."""
    ops = []
    files = []
    for j in range(wpick(r, [(1, 3), (2, 2)])):
        p = "%sf%d.rec" % (pfx, j)
        txt = chance(r, 0.5)
        delim = pick(r, DELIMS_C02) if txt else None
        fform = wpick(r, [("sfile", 4), ("raw", 1)])
        # half of the tables carry the full string profile (leading/embedded/trailing blanks, delimiter characters):
        # the column-skipping and row-skipping paths of the text reader are C02's own subject.  The model is
        # esutil's full read of the same file, so a C04 matter cannot turn into a C02 alarm by itself.
        tab = draw_table(r, "txt" if txt else "bin", delim, strsafe=chance(r, 0.5), small=not chance(r, 0.15))
        ops.append({"k": "create", "p": p, "form": fform, "delim": delim,
                    "entry": pick(r, SF_CREATE if fform == "sfile" else RAW_CREATE), "tab": tab,
                    "hdr": T.gen_header(r, simple=True) if fform == "sfile" else None})
        files.append((p, fform, tab))
    handles = []
    for j in range(r.randrange(1, 4)):
        p, fform, tab = pick(r, files)
        kind = "SFile" if (fform == "sfile" and chance(r, 0.6)) else "Recfile"
        h = "%sh%d" % (pfx, j)
        ops.append({"k": "open_r", "h": h, "p": p, "kind": kind, "nrows": pick(r, ["given", "count"])})
        handles.append((h, p, fform, tab, kind))
    for _ in range(r.randrange(3, 13) if not (LONG[0] and chance(r, 0.12)) else r.randrange(13, 40)):
        x = r.random()
        if x < 0.12:
            h, p, fform, tab, kind = pick(r, handles)
            n = tab["nrows"]
            k = wpick(r, [(1, 2), (r.randrange(2, 5), 2)])
            rows = [r.randrange(0, n) for _ in range(k)]
            rows[r.randrange(k)] = 10 ** 6 + r.randrange(0, 3)      # n + small, resolved at run time
            ops.append({"k": "hread_bad", "h": h, "rows": rows, "style": pick(r, ["read_kw", "getitem_rows", "cols"]),
                        "c_": pick(r, ["list", "array"])})
        elif x < 0.25:
            p, fform, tab = pick(r, files)
            entry = pick(r, ["sfile.read", "io.read", "recfile.read"]) if fform == "sfile" else "recfile.read"
            sel = draw_selection(r, tab["fields"], tab["nrows"], "SFile" if entry == "sfile.read" else "conv", True)
            if sel["style"] in ("getitem_rows", "cols_then_rows", "cols_read_rows"):
                sel["style"] = "read_kw"
            if "rows" in sel and sel["rows"]["t"] == "slice":
                del sel["rows"]
            ops.append({"k": "hread", "p": p, "entry": entry, "sel": sel})
        elif x < 0.30 and len(files) == 2:
            h, p, fform, tab, kind = hh = pick(r, handles)
            others = [f for f in files if f[0] != p and (kind != "SFile" or f[1] == "sfile")]
            if others:
                p2, fform2, tab2 = pick(r, others)
                ops.append({"k": "reopen_obj", "h": h, "p": p2, "nrows": pick(r, ["given", "count"])})
                handles[handles.index(hh)] = (h, p2, fform2, tab2, kind)
        else:
            h, p, fform, tab, kind = pick(r, handles)
            ops.append({"k": "hread", "h": h, "sel": draw_selection(r, tab["fields"], tab["nrows"], kind, fform == "sfile")})
    for h, *_ in handles:
        if chance(r, 0.5):
            ops.append({"k": "close", "h": h})
    if chance(r, 0.012):
        # the expensive corner of "for all tables": a binary table of more than 2 GiB (stored sparsely: a handful of
        # known rows, zeros elsewhere) and selections whose rows lie more than 2**31 bytes apart
        n = (2 ** 31) // 24 + r.randrange(1000, 30_000_000)
        edge = (2 ** 31) // 24
        known = sorted(set([0, 1, n - 1, n - 2, n // 2, edge - 1, edge, edge + 1, r.randrange(0, n), r.randrange(0, n)]))
        sels = []
        for _ in range(r.randrange(2, 6)):
            rows = sorted(set(r.sample(known, r.randrange(1, min(5, len(known)) + 1)) + ([r.randrange(0, n)] if chance(r, 0.3) else [])))
            if chance(r, 0.5):
                rows = sorted(set(rows + [0, n - 1]))
            sels.append({"rows": rows, "cols": pick(r, [None, None, ["id"], ["name", "id"], ["x"], "x", ["id", "x", "name"]]),
                         "style": pick(r, ["read_kw", "getitem_rows", "cols_then_rows", "slice1"])})
        ops.insert(r.randrange(0, len(ops) + 1), {"k": "sparse", "p": "%sbig.rec" % pfx, "n": n, "known": known,
                                                   "seed": r.randrange(1 << 30), "sels": sels})
    return ops


def caller_history(r, pfx, avoid):
    """C03: histories over create / open / write-again / close / append / incompatible append /
    overwrite / read-back / header on one or two paths."""
    ops = []
    npaths = wpick(r, [(1, 3), (2, 1)])
    state = {}
    hcount = [0]
    for j in range(npaths):
        p = "%sa%d.rec" % (pfx, j)
        txt = chance(r, 0.5)
        state[p] = {"delim": pick(r, DELIMS_C03) if txt else None, "form": wpick(r, [("sfile", 4), ("raw", 1)]),
                    "fields": None, "exists": False, "h": None, "rows": 0, "pow2": chance(r, 0.03)}
    nops = r.randrange(3, 13)
    if LONG[0] and chance(r, 0.12):
        nops = r.randrange(13, 45)          # thorough tier: longer histories
    for _ in range(nops):
        p = pick(r, sorted(state))
        s = state[p]
        form = "txt" if s["delim"] else "bin"

        def chunk(fields=None):
            if fields is None and s["fields"] is None and s.get("pow2"):
                fields = T.draw_fields_pow2(r, form)
            f = fields if fields is not None else (s["fields"] or T.draw_fields(r, form, simple=True, nmax=5))
            n = draw_nrows(r, small=not chance(r, 0.08))
            if s.get("pow2") and all(x["n"][:1] in "ps" and x["n"][1:].isdigit() for x in f):
                # chunk sizes that are an exact multiple of block sizes a writer may work in (.. 64 KiB, rarely 16 MiB)
                width = sum(T.recipe_dtype([x]).itemsize for x in f) + (len(f) if form == "txt" else 0)
                lg = (width - 1).bit_length()
                k = wpick(r, [(r.randrange(4, 12), 5), (16 - lg, 3), (17 - lg, 1), (24 - lg if form == "bin" else 16 - lg, 0.5)])
                n = 2 ** max(0, k)
            return {"fields": f, "nrows": n, "dseed": r.randrange(1 << 30)}

        def nd_of(t):
            # rarely the chunk is handed over as a C-contiguous 2-d array of the same rows
            n_ = t["nrows"]
            divs = [a for a in range(2, min(n_, 12)) if n_ % a == 0 and n_ // a > 1]
            return [pick(r, divs), 0] if divs and chance(r, 0.05) else None

        if s["h"] is not None:
            x = r.random()
            if x < 0.45:
                f = s["fields"]
                if f is not None and form == "txt" and chance(r, 0.3):
                    f = other_order(f)
                t = chunk(f)
                wop = {"k": "write", "h": s["h"], "tab": t, "hdr": T.gen_header(r, True) if chance(r, 0.3) else None}
                if s["fields"] is not None and chance(r, 0.06):
                    ops.append({"k": "write", "h": s["h"], "tab": dict(t, nrows=0), "hdr": None})     # an empty chunk first
                nd = nd_of(t)
                if nd:
                    wop["nd"] = [nd[0], t["nrows"] // nd[0]]
                if s["form"] == "sfile" and chance(r, 0.08):
                    wop["badhdr"] = pick(r, ["pairs", "nocopy"])
                    wop["badhdr_other"] = chance(r, 0.5)
                if chance(r, 0.05):
                    wop["rename_after"] = True
                ops.append(wop)
                if s["fields"] is None:
                    s["fields"] = t["fields"]
                s["exists"] = True
            elif x < 0.58 and s["fields"] is not None and s["form"] == "sfile":
                f2, how = incompatible(r, s["fields"], form)
                bad = {"k": "write", "h": s["h"], "tab": chunk(f2), "bad": how}
                ops.append(bad)
                if chance(r, 0.35):
                    # the caller tries the very same (rejected) table once more
                    ops.append(dict(bad))
            elif x < 0.70 and s["hmode"] == "r+" and s["fields"] is not None:
                sel = {"style": pick(r, ["read_kw", "getitem_rows"])}
                if chance(r, 0.5):
                    # a PARTIAL read through the writing handle (leaves the cursor in the middle of the data)
                    if chance(r, 0.6):
                        a0 = r.randrange(0, 3)
                        sel = {"style": "getitem_rows", "rows": {"t": "slice", "v": [a0, a0 + r.randrange(1, 4), pick(r, [None, 1, 2])]}}
                        if chance(r, 0.4):
                            # ... or the tail of the file: the rows that were appended through this very handle
                            sel = {"style": "getitem_rows", "rows": {"t": "slice", "v": pick(r, [[-2, None, None], [-1, None, None],
                                                                                                  [-3, -1, None], [-4, None, 2]])}}
                    else:
                        sel = {"style": pick(r, ["read_kw", "getitem_rows"]),
                               "rows": {"t": "list", "v": [0] if chance(r, 0.5) else [0, 0], "c": "list", "dt": "i8"}}
                ops.append({"k": "hread", "h": s["h"], "sel": sel})
            else:
                cop = {"k": "close", "h": s["h"]}
                if chance(r, 0.2):
                    cop["drop"] = True        # the object is released without close()
                ops.append(cop)
                s["h"] = None
            continue
        x = r.random()
        if not s["exists"]:
            if x < 0.15 and s["form"] == "sfile":
                # append to a path that does not exist yet
                t = chunk()
                ops.append({"k": "append", "p": p, "entry": pick(r, ["sfile.write.append", "io.write.append", "SFile.r+"]),
                            "delim": s["delim"], "tab": t, "hdr": T.gen_header(r, True)})
                s["fields"] = t["fields"]
                s["exists"] = True
            elif x < 0.25 and s["form"] == "sfile":
                hcount[0] += 1
                h = "%sw%d" % (pfx, hcount[0])
                ops.append({"k": "open_w", "h": h, "p": p, "kind": "SFile", "mode": "r+", "delim": s["delim"]})
                s["h"], s["hmode"] = h, "r+"
            elif x < 0.55:
                hcount[0] += 1
                h = "%sw%d" % (pfx, hcount[0])
                ops.append({"k": "open_w", "h": h, "p": p, "kind": "SFile" if s["form"] == "sfile" else "Recfile",
                            "mode": "w", "delim": s["delim"]})
                s["h"], s["hmode"] = h, "w"
                s["fields"] = None
            else:
                if chance(r, 0.15):
                    ops.append({"k": "stale", "p": p, "what": pick(r, ["garbage", "fakehdr", "lines"]),
                                "n": pick(r, [10, 3000, 100000]), "seed": r.randrange(1 << 20)})
                t = chunk(T.draw_fields_pow2(r, form) if s.get("pow2") else T.draw_fields(r, form, simple=True, nmax=5))
                cop = {"k": "create", "p": p, "form": s["form"], "delim": s["delim"],
                       "entry": pick(r, SF_CREATE if s["form"] == "sfile" else RAW_CREATE), "tab": t,
                       "hdr": T.gen_header(r, True) if s["form"] == "sfile" else None}
                if s["form"] == "sfile" and chance(r, 0.06):
                    cop["hdr_align"] = {"block": pick(r, [1024, 4096, 8192, 16384, 65536]), "back": r.randrange(0, 7),
                                        "mult": r.randrange(1, 3)}
                elif s["form"] == "sfile" and chance(r, 0.15):
                    # the header dict was read from another (or this) file of the caller, whatever form that has now
                    cop["hdr_from"] = pick(r, sorted(state))
                ops.append(cop)
                s["fields"] = t["fields"]
                s["exists"] = True
            continue
        # the file exists and no handle is open on it
        if x < 0.25:
            f = s["fields"]
            if form == "txt" and chance(r, 0.3):
                f = other_order(f)
            ents = ["sfile.write.append", "io.write.append", "SFile.r+"] if s["form"] == "sfile" else ["Recfile.r+", "recfile.write.r+"]
            aop = {"k": "append", "p": p, "entry": pick(r, ents), "delim": s["delim"], "tab": chunk(f),
                   "hdr": T.gen_header(r, True) if chance(r, 0.3) else None}
            nd = nd_of(aop["tab"])
            if nd:
                aop["nd"] = [nd[0], aop["tab"]["nrows"] // nd[0]]
            if s["form"] == "sfile" and chance(r, 0.2):
                # an append-or-create caller passes the same delim= on every call; for a file that exists the
                # keyword is documented as ignored (the form comes from the file's own header)
                aop["kwdelim"] = pick(r, [d for d in [None] + list(DELIMS_C03) if d != s["delim"]])
            ops.append(aop)
        elif x < 0.37 and s["form"] == "sfile":
            f2, how = incompatible(r, s["fields"], form)
            ops.append({"k": "append", "p": p, "entry": pick(r, ["sfile.write.append", "io.write.append", "SFile.r+"]),
                        "delim": s["delim"], "tab": chunk(f2), "bad": how})
        elif x < 0.52:
            hcount[0] += 1
            h = "%sw%d" % (pfx, hcount[0])
            kind = "SFile" if s["form"] == "sfile" else "Recfile"
            oop = {"k": "open_w", "h": h, "p": p, "kind": kind, "mode": "r+", "nrows": pick(r, ["given", "count"])}
            if kind == "SFile" and chance(r, 0.2):
                oop["kwdelim"] = pick(r, [d for d in [None] + list(DELIMS_C03) if d != s["delim"]])
            ops.append(oop)
            s["h"], s["hmode"] = h, "r+"
        elif x < 0.62:
            # overwrite (possibly changing form, delimiter and fields)
            if chance(r, 0.3):
                s["delim"] = pick(r, DELIMS_C03) if chance(r, 0.5) else None
                form = "txt" if s["delim"] else "bin"
            t = chunk(T.draw_fields_pow2(r, form) if s.get("pow2") else T.draw_fields(r, form, simple=True, nmax=5))
            t["nrows"] = wpick(r, [(1, 2), (t["nrows"], 2)])
            ops.append({"k": "create", "p": p, "form": s["form"], "delim": s["delim"],
                        "entry": pick(r, SF_CREATE if s["form"] == "sfile" else RAW_CREATE), "tab": t,
                        "hdr": T.gen_header(r, True) if s["form"] == "sfile" else None})
            if s["form"] == "sfile" and chance(r, 0.25):
                ops[-1]["hdr_from"] = pick(r, sorted(state))      # e.g. the header of the very file being replaced
            s["fields"] = t["fields"]
        elif x < 0.70:
            hcount[0] += 1
            h = "%sw%d" % (pfx, hcount[0])
            ops.append({"k": "open_w", "h": h, "p": p, "kind": "SFile" if s["form"] == "sfile" else "Recfile",
                        "mode": "w", "delim": s["delim"]})
            s["h"], s["hmode"] = h, "w"
            s["fields"] = None
            s["exists"] = False
        elif x < 0.82 and s["form"] == "sfile":
            ops.append({"k": "header", "p": p, "entry": pick(r, HDR_READ)})
        else:
            ops.append({"k": "read", "p": p, "entry": pick(r, SF_READ_BASIC if s["form"] == "sfile" else RAW_READ)})
    for p in sorted(state):
        s = state[p]
        if s["h"] is not None:
            ops.append({"k": "close", "h": s["h"]})
        ops.append({"k": "read", "p": p, "entry": pick(r, SF_READ_BASIC if s["form"] == "sfile" else RAW_READ)})
        if s["form"] == "sfile":
            ops.append({"k": "header", "p": p, "entry": pick(r, HDR_READ)})
    return ops


def caller_own(r, pfx, avoid):
    """C15: writers (binary and text, every entry point) with the presentation of the table drawn
    per call; only the caller-owned-memory oracle is enabled."""
    ops = []
    for j in range(r.randrange(1, 4)):
        p = "%so%d.rec" % (pfx, j)
        txt = chance(r, 0.6)
        delim = pick(r, DELIMS_ALL) if txt else None
        form = "txt" if txt else "bin"
        fform = wpick(r, [("sfile", 3), ("raw", 1)])
        fields = T.draw_fields(r, form, simple=True, nmax=6, allow_mixed=False)
        if txt and chance(r, 0.15):
            # a table the text writer must reject (bool / complex columns have no text form): a rejected
            # write has to leave the caller's memory alone just as an accepted one
            fields = fields + [{"n": "unsup%d" % j, "t": pick(r, ["b1", "c8", "c16"]), "s": [], "o": fields[0]["o"], "p": "simple"}]

        def tab():
            t = {"fields": fields, "nrows": draw_nrows(r, small=True), "dseed": r.randrange(1 << 30)}
            if txt and chance(r, 0.3) and any(f["t"][0] == "S" for f in fields):
                t["rawstr"] = True          # string values with line breaks, NULs, any byte
            return t

        def pres():
            return present.draw(r, allow_convert=False, table=True)

        def wopts():
            # option combinations that select another internal path of the text writer
            if not txt or not chance(r, 0.5):
                return None
            o = {}
            if chance(r, 0.6):
                o["padnull"] = True
            if chance(r, 0.3):
                o["ignorenull"] = True
            if fform == "raw" and chance(r, 0.3):
                o["bracket_arrays"] = True
            return o or None
        ops.append({"k": "create", "p": p, "form": fform, "delim": delim,
                    "entry": pick(r, SF_CREATE if fform == "sfile" else RAW_CREATE), "tab": tab(),
                    "hdr": None, "present": pres(), "wopts": wopts()})
        for _ in range(r.randrange(0, 3)):
            if chance(r, 0.5):
                ents = ["sfile.write.append", "io.write.append", "SFile.r+"] if fform == "sfile" else ["Recfile.r+", "recfile.write.r+"]
                ops.append({"k": "append", "p": p, "entry": pick(r, ents), "delim": delim, "tab": tab(), "present": pres(),
                            "wopts": wopts()})
            elif chance(r, 0.25):
                ops.append({"k": "write_ro", "p": p, "tab": tab(), "present": pres()})
            else:
                h = "%sw%d_%d" % (pfx, j, len(ops))
                ops.append({"k": "open_w", "h": h, "p": p, "kind": "SFile" if fform == "sfile" else "Recfile", "mode": "r+",
                            "wopts": wopts()})
                ops.append({"k": "write", "h": h, "tab": tab(), "present": pres()})
                ops.append({"k": "close", "h": h})
    return ops


# =========================================================================== plan

LONG = [False]


def plan(S, prop, mode, tier, avoid):
    cfg = S.py("config")
    LONG[0] = (tier == "thorough")
    ncallers = wpick(cfg, [(1, 5), (2, 3), (3, 2)])
    callers = []
    for c in range(ncallers):
        r = S.py("caller%d" % c)
        pfx = "c%d_" % c
        if prop == "C01":
            ops = caller_roundtrip(r, pfx, "bin", avoid, None)
        elif prop == "C04":
            ops = caller_roundtrip(r, pfx, "txt", avoid, DELIMS_ALL)
        elif prop == "C02":
            ops = caller_subsets(r, pfx, avoid)
        elif prop == "C03":
            ops = caller_history(r, pfx, avoid)
        elif prop == "C15":
            ops = caller_own(r, pfx, avoid)
        else:
            raise ValueError(prop)
        for op in ops:
            op["c"] = c
        callers.append(ops)
    # interleave, preserving each caller's order
    sched = S.py("schedule")
    idx = [0] * ncallers
    flat = []
    live = [c for c in range(ncallers) if callers[c]]
    burst = wpick(sched, [(1, 3), (3, 2), (1000, 1)])
    while live:
        c = pick(sched, live)
        for _ in range(sched.randrange(1, burst + 1)):
            if idx[c] >= len(callers[c]):
                break
            flat.append(callers[c][idx[c]])
            idx[c] += 1
        live = [c for c in live if idx[c] < len(callers[c])]
    # how the caller spells file names: absolute (usual), or with an environment variable / a tilde that esutil
    # expands itself
    # harmless looks at open objects, anywhere in the history
    ob = S.py("observe")
    if chance(ob, 0.35):
        hs = [(i, o["h"]) for i, o in enumerate(flat) if o.get("k") in ("open_w", "open_r")]
        for _ in range(ob.randrange(1, 4)):
            if not hs:
                break
            i, hname = pick(ob, hs)
            closes = [j for j in range(i + 1, len(flat)) if flat[j].get("k") == "close" and flat[j].get("h") == hname]
            hi = closes[0] if closes else len(flat)
            flat.insert(ob.randrange(i + 1, hi + 1), {"k": "observe", "h": hname, "c": flat[i].get("c", 0),
                                                     "what": ob.sample(["repr", "str", "len", "nrows", "dtype", "mode", "name", "header"],
                                                                       ob.randrange(1, 5))})
            hs = [(i2, o["h"]) for i2, o in enumerate(flat) if o.get("k") in ("open_w", "open_r")]
    pathform = wpick(cfg, [("abs", 8), ("var", 1), ("home", 1), ("mixed", 1.5)])
    if pathform == "mixed" and chance(cfg, 0.6):
        # the program changes its working directory (and back) in the middle of the history
        for _ in range(cfg.randrange(1, 4)):
            flat.insert(cfg.randrange(0, len(flat) + 1), {"k": "chdir", "c": 0})
    return {"cfg": {"callers": ncallers, "pathform": pathform}, "ops": flat}


def describe(script):
    from ..kernel import enc
    return enc({"cfg": script["cfg"], "ops": script["ops"][:14], "n_ops": len(script["ops"])})


# =========================================================================== shrinking

def _with_op(script, i, op):
    c = dict(script)
    c["ops"] = script["ops"][:i] + [op] + script["ops"][i + 1:]
    return c


def simplify(script):
    ops = script["ops"]
    if script.get("cfg", {}).get("pathform", "abs") != "abs":
        yield dict(script, cfg=dict(script["cfg"], pathform="abs"))
    # all callers -> one
    if any(op.get("c", 0) != 0 for op in ops):
        c = dict(script)
        c["ops"] = [dict(op, c=0) for op in ops]
        yield c
    for i, op in enumerate(ops):
        if "tab" in op:
            t = op["tab"]
            n = t["nrows"]
            for nn in (1, 2, n // 2, n - 1):
                if 1 <= nn < n:
                    yield _with_op(script, i, dict(op, tab=dict(t, nrows=nn)))
            if len(t["fields"]) > 1:
                for j in range(len(t["fields"])):
                    f2 = t["fields"][:j] + t["fields"][j + 1:]
                    # the same fields are usually shared by later chunks of the same file: drop everywhere
                    name = t["fields"][j]["n"]
                    c = dict(script)
                    newops = []
                    for o in ops:
                        if "tab" in o and any(f["n"] == name for f in o["tab"]["fields"]) and len(o["tab"]["fields"]) > 1:
                            o = dict(o, tab=dict(o["tab"], fields=[f for f in o["tab"]["fields"] if f["n"] != name]))
                        if "sel" in o and o["sel"].get("cols"):
                            cs = o["sel"]["cols"]
                            if cs["t"] == "list" and name in cs["v"] and len(cs["v"]) > 1:
                                o = dict(o, sel=dict(o["sel"], cols=dict(cs, v=[x for x in cs["v"] if x != name])))
                        newops.append(o)
                    c["ops"] = newops
                    yield c
            for j, f in enumerate(t["fields"]):
                for key, val in (("p", "simple"), ("s", []), ("o", "<"), ("t", "i4"), ("n", "f%d" % j)):
                    if f.get(key) != val:
                        name = f["n"]
                        c = dict(script)
                        newops = []
                        for o in ops:
                            if "tab" in o:
                                nf = [dict(g, **{key: val}) if g["n"] == name else g for g in o["tab"]["fields"]]
                                o = dict(o, tab=dict(o["tab"], fields=nf))
                            if key == "n" and "sel" in o and o["sel"].get("cols"):
                                cs = o["sel"]["cols"]
                                if cs["t"] == "name" and cs["v"] == name:
                                    o = dict(o, sel=dict(o["sel"], cols=dict(cs, v=val)))
                                elif cs["t"] == "list" and name in cs["v"]:
                                    o = dict(o, sel=dict(o["sel"], cols=dict(cs, v=[val if x == name else x for x in cs["v"]])))
                            newops.append(o)
                        c["ops"] = newops
                        yield c
        if op.get("hdr"):
            yield _with_op(script, i, dict(op, hdr=None))
            if isinstance(op["hdr"], dict) and len(op["hdr"]) > 1:
                for k in list(op["hdr"]):
                    yield _with_op(script, i, dict(op, hdr={a: b for a, b in op["hdr"].items() if a != k}))
        if op.get("present") and op["present"].get("kind") != "plain":
            yield _with_op(script, i, dict(op, present={"kind": "plain"}))
        if op["k"] == "create" and op.get("entry") not in ("sfile.write", "recfile.write"):
            yield _with_op(script, i, dict(op, entry="sfile.write" if op["form"] == "sfile" else "recfile.write"))
        if "sel" in op:
            sel = op["sel"]
            if sel.get("rows") and sel["rows"]["t"] == "list" and len(sel["rows"]["v"]) > 1:
                v = sel["rows"]["v"]
                for j in range(len(v)):
                    yield _with_op(script, i, dict(op, sel=dict(sel, rows=dict(sel["rows"], v=v[:j] + v[j + 1:]))))
            if sel.get("rows") and sel["rows"]["t"] == "list" and sel["rows"].get("c") != "list":
                yield _with_op(script, i, dict(op, sel=dict(sel, rows=dict(sel["rows"], c="list"))))
            if sel.get("cols") and sel["cols"]["t"] == "list" and len(sel["cols"]["v"]) > 1:
                v = sel["cols"]["v"]
                for j in range(len(v)):
                    yield _with_op(script, i, dict(op, sel=dict(sel, cols=dict(sel["cols"], v=v[:j] + v[j + 1:]))))
