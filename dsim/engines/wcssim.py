"""
wcssim -- call histories on ONE WCS object (C10, part of C15).

Simulator-owned: the order in which 1-3 logical callers use the same object (image2sky,
sky2image with/without root finding and distortion, get_jacobian), when the lazily fitted
inverse polynomial first gets built, calls that raise half-way through the vectorised root
finder, non-finite and behind-the-tangent-plane positions.  Oracles: a fresh object per call
(bit equality), a clean-room FITS-WCS forward reference, round trips.
"""
import math
import warnings

import numpy as np

from ..kernel import chance, pick, wpick, adigest, sdigest, scribble, Held
from ..refs.sphere import sep_deg, tan_deproject
from .. import present

REAL = ["esutil.wcsutil.WCS and helpers", "scipy.optimize.fsolve", "numpy.linalg"]
STUB = []

PV1 = {0: (0, 0), 1: (1, 0), 2: (0, 1), 4: (2, 0), 5: (1, 1), 6: (0, 2), 7: (3, 0), 8: (2, 1), 9: (1, 2), 10: (0, 3)}
PV2 = {0: (0, 0), 1: (0, 1), 2: (1, 0), 4: (0, 2), 5: (1, 1), 6: (2, 0), 7: (0, 3), 8: (1, 2), 9: (2, 1), 10: (3, 0)}


# =========================================================================== header generator

def draw_header(r):
    proj = wpick(r, [("TAN", 2), ("TPV", 4), ("TAN-PV", 1.5), ("SIP", 4)])
    nx, ny = r.randrange(500, 4001), r.randrange(500, 4001)
    scale = r.uniform(0.05, 2.0) / 3600.0
    th = r.uniform(0, 2 * math.pi)
    flip = -1.0 if chance(r, 0.3) else 1.0
    c, s = math.cos(th), math.sin(th)
    if chance(r, 0.1):
        # an image aligned with the sky axes: the off-diagonal (or the diagonal) CD elements are exactly zero
        c, s = pick(r, [(1.0, 0.0), (0.0, 1.0), (-1.0, 0.0), (0.0, -1.0)])
    cd = [[-flip * scale * c, scale * s], [flip * scale * s, scale * c]]
    ck = wpick(r, [("any", 5), ("pole", 1.5), ("nearpole", 2), ("seam", 2), ("round", 1)])
    hdr = {}
    if ck == "any":
        crval = (r.uniform(0, 360), math.degrees(math.asin(r.uniform(-1, 1))))
    elif ck == "round":
        crval = pick(r, [(0.0, 0.0), (180.0, 0.0), (90.0, 45.0), (270.0, -30.0), (45.0, 0.0), (0.0, 60.0), (180.0, -45.0), (10.0, 0.0)])
    elif ck == "pole":
        crval = (pick(r, [0.0, 77.7, 359.0]), pick(r, [90.0, -90.0]))
        if crval[1] == 90.0:
            hdr["longpole"] = 180.0     # FITS default differs exactly at +90; state it explicitly
    elif ck == "nearpole":
        crval = (r.uniform(0, 360), pick(r, [89.9999, -89.9999, 89.5, -89.9, 88.0]))
    else:
        crval = (pick(r, [0.0, 1e-7, 359.99999, 0.01, 359.9]), r.uniform(-85, 85))
    pk = wpick(r, [("inside", 5), ("edge", 1), ("outside", 3)])
    if pk == "inside":
        crpix = (r.uniform(1, nx), r.uniform(1, ny))
    elif pk == "edge":
        crpix = (pick(r, [1.0, float(nx), 0.5]), r.uniform(1, ny))
    else:
        crpix = (r.uniform(-2 * nx, 3 * nx), r.uniform(-2 * ny, 3 * ny))
    hdr.update({"naxis1": nx, "naxis2": ny, "crpix1": crpix[0], "crpix2": crpix[1],
                "crval1": crval[0], "crval2": crval[1], "cd1_1": cd[0][0], "cd1_2": cd[0][1],
                "cd2_1": cd[1][0], "cd2_2": cd[1][1]})
    if chance(r, 0.5):
        hdr["cunit1"] = "deg"
        hdr["cunit2"] = "deg"
    if chance(r, 0.1):
        hdr["znaxis1"], hdr["znaxis2"] = nx, ny
    # largest pixel distance between crpix and the image
    R = max(math.hypot(cx - crpix[0], cy - crpix[1]) for cx in (1, nx) for cy in (1, ny))
    D = 10 ** r.uniform(-1, math.log10(30))          # total displacement budget in pixels
    if proj == "TAN":
        hdr["ctype1"], hdr["ctype2"] = "RA---TAN", "DEC--TAN"
    elif proj in ("TPV", "TAN-PV"):
        if proj == "TPV":
            hdr["ctype1"], hdr["ctype2"] = "RA---TPV", "DEC--TPV"
        else:
            hdr["ctype1"], hdr["ctype2"] = "RA---TAN", "DEC--TAN"
        umax = R * scale
        shape_kind = wpick(r, [("any", 7), ("axis_low", 1.5), ("linear", 1)])
        low_axis = pick(r, ["pv1", "pv2"])
        low_max = pick(r, [1, 2])
        for pv, pmap in (("pv1", PV1), ("pv2", PV2)):
            for k, (i, j) in pmap.items():
                order = i + j
                # scamp solutions of low degree: one axis without its cubic (or quadratic and cubic) terms, or a
                # first-order solution (DISTORT_DEGREES=1: constant and linear terms only)
                if shape_kind == "linear" and order > 1:
                    continue
                if shape_kind == "axis_low" and pv == low_axis and order > low_max:
                    continue
                if k == 1:
                    hdr["%s_1" % pv] = 1.0 + r.uniform(-1, 1) * min(0.015, 0.3 * D / R)
                    continue
                if k == 0:
                    if chance(r, 0.5):
                        hdr["%s_0" % pv] = r.uniform(-1, 1) * 0.2 * D * scale
                    continue
                if not chance(r, 0.7):
                    continue
                dk = min(0.25 * D, 0.012 * R / max(order, 1))
                hdr["%s_%d" % (pv, k)] = r.uniform(-1, 1) * dk * scale / (umax ** order)
    else:
        hdr["ctype1"], hdr["ctype2"] = "RA---TAN-SIP", "DEC--TAN-SIP"
        hi = 7 if chance(r, 0.25) else 5        # a quarter of the SIP headers may go to order 5 or 6 (HST, Spitzer)
        order_a = r.randrange(2, hi)
        order_b = order_a if chance(r, 0.5) else r.randrange(2, hi)     # A_ORDER and B_ORDER are independent keywords
        for pre in ("a", "b"):
            order = order_a if pre == "a" else order_b
            hdr["%s_order" % pre] = order
            for p in range(order + 1):
                for q in range(order + 1 - p):
                    if p + q < 2 or not chance(r, 0.6):
                        continue
                    dk = min(0.25 * D, 0.012 * R / (p + q))
                    hdr["%s_%d_%d" % (pre, p, q)] = r.uniform(-1, 1) * dk / (R ** (p + q))
        hdr["ap_order"] = order_a
        hdr["bp_order"] = order_b
        if chance(r, 0.4):
            # stored (first-order) inverse coefficients, as some pipelines write them
            for pre, ipre in (("a", "ap"), ("b", "bp")):
                for key in [k for k in hdr if k.startswith(pre + "_") and k[len(pre) + 1].isdigit()]:
                    hdr[ipre + key[len(pre):]] = -hdr[key]
    return hdr


def _inverse_order(hdr):
    if hdr["ctype1"].endswith("-SIP"):
        return max(int(hdr.get("a_order", 0)), int(hdr.get("b_order", 0))) + 1
    return 4            # scamp/TPV polynomials are cubic


def _design(u, v, n):
    return np.stack([u ** p * v ** q for p in range(n + 1) for q in range(n + 1 - p)], axis=1)


def _independent_inverse_error(hdr, H, pts):
    """largest error, at the positions `pts`, of an inverse polynomial fitted independently of esutil's: true pixel =
    linear estimate (sky -> pixel through the CD matrix alone) + polynomial of total order n in the linear estimate."""
    n = _inverse_order(hdr)
    nx, ny = float(hdr["naxis1"]), float(hdr["naxis2"])
    g = 2 * (n + 2) + 3
    gx, gy = np.meshgrid(np.linspace(1.0, nx, g), np.linspace(1.0, ny, g))
    gx, gy = gx.ravel(), gy.ravel()
    w = H.fresh()

    def linear(x, y):
        lon, lat = ref_forward(hdr, x, y, True)
        with warnings.catch_warnings():
            warnings.simplefilter("ignore")
            xu, yu = w.sky2image(np.asarray(lon, dtype="f8"), np.asarray(lat, dtype="f8"), distort=False, find=False)
        return np.asarray(xu, dtype="f8"), np.asarray(yu, dtype="f8")
    xu, yu = linear(gx, gy)
    s_, cx, cy = max(nx, ny), nx / 2.0, ny / 2.0
    A = _design((xu - cx) / s_, (yu - cy) / s_, n)
    cxs = np.linalg.lstsq(A, gx - xu, rcond=None)[0]
    cys = np.linalg.lstsq(A, gy - yu, rcond=None)[0]
    worst = 0.0
    for xt, yt in pts:
        xut, yut = linear(xt, yt)
        At = _design((xut - cx) / s_, (yut - cy) / s_, n)
        worst = max(worst, float(np.max(np.hypot(xut + At @ cxs - xt, yut + At @ cys - yt))))
    return worst


def is_distorted(hdr):
    return any(k.startswith("pv") or (k[:2] in ("a_", "b_") and not k.endswith("order")) for k in hdr)


def ref_forward(hdr, x, y, distort=True):
    """clean-room FITS-WCS pixel -> sky for TAN / TPV / TAN-SIP (degrees)."""
    x = np.asarray(x, dtype=np.longdouble)
    y = np.asarray(y, dtype=np.longdouble)
    dx = x - np.longdouble(hdr["crpix1"])
    dy = y - np.longdouble(hdr["crpix2"])
    LD = np.longdouble
    sip = hdr["ctype1"].endswith("-SIP")
    if sip and distort:
        fx, fy = dx.copy(), dy.copy()
        for pre, tgt in (("a", 0), ("b", 1)):
            acc = np.zeros_like(dx)
            for k, v in hdr.items():
                if k.startswith(pre + "_") and k != pre + "_order":
                    p, q = [int(t) for t in k.split("_")[1:]]
                    acc = acc + LD(v) * dx ** p * dy ** q
            if tgt == 0:
                fx = fx + acc
            else:
                fy = fy + acc
        dx, dy = fx, fy
    u = LD(hdr["cd1_1"]) * dx + LD(hdr["cd1_2"]) * dy
    v = LD(hdr["cd2_1"]) * dx + LD(hdr["cd2_2"]) * dy
    has_pv = any(k.startswith("pv1_") or k.startswith("pv2_") for k in hdr)
    if (not sip) and distort and has_pv:
        xi = np.zeros_like(u)
        eta = np.zeros_like(u)
        for k, (i, j) in PV1.items():
            c = hdr.get("pv1_%d" % k)
            if c is not None:
                xi = xi + LD(c) * u ** i * v ** j
        for k, (i, j) in PV2.items():
            c = hdr.get("pv2_%d" % k)
            if c is not None:
                eta = eta + LD(c) * u ** i * v ** j
        u, v = xi, eta
    return tan_deproject(u, v, hdr["crval1"], hdr["crval2"])


# =========================================================================== plan

def _pts(r, hdr, n, where="image"):
    nx, ny = hdr["naxis1"], hdr["naxis2"]
    out = []
    for _ in range(n):
        k = wpick(r, [("in", 6), ("corner", 1), ("crpix", 0.7), ("int", 1)])
        if k == "in":
            out.append([round(r.uniform(1, nx), 4), round(r.uniform(1, ny), 4)])
        elif k == "corner":
            out.append([float(pick(r, [1, nx])), float(pick(r, [1, ny]))])
        elif k == "crpix" and 1 <= hdr["crpix1"] <= nx and 1 <= hdr["crpix2"] <= ny:
            # only when the reference pixel lies in the image: the quantifier is "over the image"
            out.append([hdr["crpix1"], hdr["crpix2"]])
        else:
            out.append([float(r.randrange(1, nx + 1)), float(r.randrange(1, ny + 1))])
    return out


def _poleclass(lat):
    d = 90.0 - float(np.max(np.abs(lat)))
    return "<1e-3deg" if d < 1e-3 else ("<0.1deg" if d < 0.1 else ("<2deg" if d < 2 else "far"))


def _shape(r):
    return wpick(r, [("scalar", 3), ("arr1", 1.5), ("arr3", 3), ("arr16", 1)])


def _n_of(shape):
    return {"scalar": 1, "arr1": 1, "arr3": 3, "arr16": 16, "arr6000": 6000}[shape]


def plan(S, prop, mode, tier, avoid):
    cfg = S.py("config")
    hdr = draw_header(cfg)
    distorted = is_distorted(hdr)
    avoid_pole_find = any(e.get("features", {}).get("pole") == "<1e-3deg" for e in avoid)
    ncallers = wpick(cfg, [(1, 4), (2, 3), (3, 2)])
    callers = []
    for c in range(ncallers):
        r = S.py("caller%d" % c)
        ops = []
        for _ in range(r.randrange(1, 6) if not (tier == "thorough" and chance(r, 0.12)) else r.randrange(6, 16)):
            k = wpick(r, [("i2s", 4), ("rt", 6), ("jac", 1.5), ("s2i_far", 1), ("abort", 1.2), ("nan", 0.8),
                          ("crpix", 1), ("s2i_given", 1.2), ("look", 0.8)])
            op = {"k": k, "c": c}
            if k == "look":
                op["what"] = r.sample(["repr", "str", "keys", "item", "naxis", "items_all"], r.randrange(1, 4))
            if k == "i2s":
                sh = _shape(r)
                op.update({"shape": sh, "pts": _pts(r, hdr, _n_of(sh)), "distort": chance(r, 0.8),
                           "xdt": wpick(r, [("f8", 6), ("f4", 1.5), ("i4", 1)])})
            elif k == "rt":
                find = chance(r, 0.5)
                if avoid_pole_find and abs(hdr["crval2"]) > 89.99:
                    find = False        # steer away from the open finding C10-rootfind-at-pole
                sh = _shape(r)
                if find and sh == "arr16" and not chance(r, 0.2):
                    sh = "arr3"
                op.update({"shape": sh, "pts": _pts(r, hdr, _n_of(sh)), "distort": chance(r, 0.85), "find": find,
                           "buf": chance(r, 0.5), "xdt": wpick(r, [("f8", 6), ("f4", 1.5), ("i4", 1)])})
            elif k == "jac":
                sh = _shape(r)
                op.update({"shape": sh, "pts": _pts(r, hdr, _n_of(sh)), "distort": chance(r, 0.8),
                           "step": pick(r, [1.0, 0.5, 2.0])})
            elif k == "s2i_far":
                n = r.randrange(1, 4)
                op.update({"lonlat": [[round(r.uniform(0, 360), 5), round(r.uniform(-90, 90), 5)] for _ in range(n)],
                           "shape": "scalar" if n == 1 and chance(r, 0.5) else "arr", "distort": chance(r, 0.7)})
            elif k == "s2i_given":
                # a sky position that did NOT come out of image2sky: the reference position itself (bit for bit), or
                # a catalogue position (6 decimals) inside the image; scalar or the middle element of an array
                op.update({"where": pick(r, ["crval", "crval", "rounded"]), "pts": _pts(r, hdr, 3), "distort": chance(r, 0.85),
                           "shape": pick(r, ["scalar", "arr3"])})
            elif k == "abort":
                op.update({"how": pick(r, ["find_len_mismatch", "i2s_len_mismatch", "nofind_len_mismatch", "i2s_len_mismatch",
                                           "jac_len_mismatch"]),
                           "pts": _pts(r, hdr, 3), "distort": chance(r, 0.5)})
            elif k == "nan":
                op.update({"which": pick(r, ["i2s", "s2i_nofind"]), "val": pick(r, ["nan", "inf", "-inf"]),
                           "shape": pick(r, ["scalar", "arr3"])})
            else:
                op.update({"distort": chance(r, 0.5)})
            if prop == "C15" and "shape" in op and op["shape"] != "scalar":
                op["px"] = present.draw(r)
                op["py"] = present.draw(r)
            ops.append(op)
        callers.append(ops)
    sched = S.py("schedule")
    idx = [0] * ncallers
    flat = []
    live = list(range(ncallers))
    while live:
        c = pick(sched, live)
        flat.append(callers[c][idx[c]])
        idx[c] += 1
        live = [k for k in live if idx[k] < len(callers[k])]
    out = {"cfg": {"hdr": hdr, "distorted": distorted}, "ops": flat}
    if tier == "thorough" and chance(cfg, 0.00025):
        # thorough tier only (about 40 s of root finding): one round trip with a catalogue-sized array, for code
        # that treats long inputs differently; "the same for scalar and array inputs" is judged on its first element
        flat.append({"k": "rt", "c": 0, "shape": "arr6000", "pts": _pts(cfg, hdr, 6000), "distort": True, "find": True,
                     "buf": False, "xdt": "f8"})
    by = S.py("bystander")
    if chance(by, 0.35):
        # other WCS objects (other headers, usually of the same distortion family) are created and used while
        # the object under test is alive -- one object per CCD is ordinary use.  They must not disturb it.
        hdr2 = draw_header(by)
        if chance(by, 0.7) and hdr2["ctype1"] != hdr["ctype1"]:
            for _ in range(6):
                hdr2 = draw_header(by)
                if hdr2["ctype1"] == hdr["ctype1"]:
                    break
        if chance(by, 0.3):
            # the same detector read out through a small window: a header that differs only in NAXIS1/NAXIS2,
            # used (with its own lazy inverse fit) before the full frame is
            hdr2 = dict(hdr)
            hdr2["naxis1"] = max(8, int(hdr["naxis1"]) // pick(by, [4, 10, 30]))
            hdr2["naxis2"] = max(8, int(hdr["naxis2"]) // pick(by, [4, 10, 30]))
            flat.insert(0, {"k": "bystander", "c": 9, "use": "nofind"})
        out["cfg"]["hdr2"] = hdr2
        for _ in range(by.randrange(1, 3)):
            flat.insert(by.randrange(0, len(flat) + 1), {"k": "bystander", "c": 9, "use": pick(by, ["i2s", "nofind", "find", "none"])})
    return out


def describe(script):
    return {"cfg": script["cfg"], "ops": script["ops"][:10], "n_ops": len(script["ops"])}


# =========================================================================== execute

def _args(pts, shape, dt="f8"):
    """pixel positions as the caller holds them: float64 (usual), float32 (a FITS 'E' column), integers"""
    a = np.array(pts, dtype="f8")
    if dt == "i4":
        a = np.round(a)
    if shape == "scalar":
        if dt == "f4":
            return np.float32(a[0, 0]), np.float32(a[0, 1])
        if dt == "i4":
            return int(a[0, 0]), int(a[0, 1])
        return float(a[0, 0]), float(a[0, 1])
    if dt in ("f4", "i4"):
        return a[:, 0].astype(dt), a[:, 1].astype(dt)
    return a[:, 0].copy(), a[:, 1].copy()


def _bits_equal(a, b):
    if isinstance(a, tuple):
        return isinstance(b, tuple) and len(a) == len(b) and all(_bits_equal(x, y) for x, y in zip(a, b))
    a = np.asarray(a, dtype="f8")
    b = np.asarray(b, dtype="f8")
    return a.shape == b.shape and a.tobytes() == b.tobytes()


def _call(w, kind, args, kw):
    with warnings.catch_warnings():
        warnings.simplefilter("ignore")
        with np.errstate(all="ignore"):
            if kind == "i2s":
                return w.image2sky(*args, **kw)
            if kind == "s2i":
                return w.sky2image(*args, **kw)
            return w.get_jacobian(*args, **kw)


class Hist(object):
    """what the shared object has been through; a fresh model object replays only the steps
    that legitimately persist (the lazy inverse fit)."""

    def __init__(self, hdr):
        from esutil import wcsutil
        self.W = wcsutil.WCS
        self.hdr = hdr
        self.obj = self.W(dict(hdr))
        self.ncalls = 0
        self.inverse_built = False
        self.last = "new"
        self.last_shape = "none"

    def fresh(self):
        return self.W(dict(self.hdr))


def execute(script, run, env):
    cfg = script["cfg"]
    hdr = cfg["hdr"]
    judge = run.prop == "C10"
    c15 = run.prop == "C15"
    try:
        H = Hist(hdr)
    except Exception as e:
        if judge:
            run.fail("wcs.ctor", {"ctype": hdr.get("ctype1")}, "WCS(header) raised %r" % (e,))
        return
    distorted = cfg["distorted"]
    proj = hdr["ctype1"][5:] + ("+PV" if any(k.startswith("pv") for k in hdr) else "")
    ncallers = len(set(op.get("c", 0) for op in script["ops"]))
    prev_c = None
    nofind_err = []
    nofind_pts = []
    undist_err = []
    bystanders = []
    skybufs = {}
    pending = []        # results of the previous operation: the caller edits them in place before the next one
    held = Held()       # ... after it was verified that the library did not change them in the meantime
    for i, op in enumerate(script["ops"]):
        run.step = i
        if pending:
            if held.items and judge:
                held.settle(run, "wcs.result_overwritten", {})
                if run.failures:
                    return
            else:
                del held.items[:]
                if scribble(pending):
                    run.fault("caller_edited_a_result_in_place")
            del pending[:]
        c = op.get("c", 0)
        if prev_c is not None and c != prev_c and ncallers > 1:
            run.fault("interleaved_callers_on_one_object")
        prev_c = c
        st = "%s|inv=%s|last=%s|shape=%s" % (proj, H.inverse_built, H.last, H.last_shape)
        run.states.add(st)
        k = op["k"]
        if H.ncalls > 0 and H.last == "aborted":
            run.fault("call_after_aborted_call")
        if H.ncalls > 0 and op.get("shape", "arr") != H.last_shape and H.last_shape != "none":
            run.fault("scalar_array_alternation")
        feats = {"proj": proj, "call": k}

        def judged_call(kind, args, kw, what):
            """call on the shared object and on a fresh one; compare bitwise."""
            run.trans.add(st + "|%s|%s" % (kind, sorted(kw.items())))
            try:
                got = _call(H.obj, kind, args, kw)
            except Exception as e:
                run.event(c, kind, sdigest([args_d(args), kw]), "error(%s)" % type(e).__name__)
                if judge:
                    run.fail("wcs.raises", dict(feats, kind=kind), "%s raised %r on the shared object" % (what, e))
                H.last = "error"
                H.ncalls += 1
                return None
            H.ncalls += 1
            H.last = "ok"
            run.event(c, kind, sdigest([args_d(args), kw]), "ok", adigest(tuple(np.asarray(g) for g in got)))
            if judge:
                run.checks += 1
                f = H.fresh()
                if kind == "s2i" and not kw.get("find", True) and kw.get("distort", True) and distorted:
                    pass  # the fresh object builds the same lazy fit inside this very call
                try:
                    ref = _call(f, kind, args, kw)
                except Exception as e:
                    ref = None
                    run.fail("wcs.history", dict(feats, kind=kind), "%s works on the used object but raises %r on a fresh one" % (what, e))
                if ref is not None and not _bits_equal(tuple(got), tuple(ref)):
                    run.fail("wcs.history", dict(feats, kind=kind),
                             "%s after %d earlier calls (last: %s) returns %r, a fresh object built from the same header returns %r"
                             % (what, H.ncalls - 1, H.last, _short(got), _short(ref)))
                pending.append(ref)
            pending.append(got)
            held.hold(got)
            return got

        if k == "bystander":
            hdr2 = cfg.get("hdr2")
            if hdr2 is None:
                run.event(c, "bystander", "", "skipped(no second header)")
                continue
            try:
                with warnings.catch_warnings():
                    warnings.simplefilter("ignore")
                    with np.errstate(all="ignore"):
                        b = H.W(dict(hdr2))
                        bystanders.append(b)
                        cx, cy = hdr2["naxis1"] / 2.0, hdr2["naxis2"] / 2.0
                        if op.get("use") != "none":
                            lo, la = b.image2sky(cx, cy)
                            if op.get("use") == "nofind":
                                b.sky2image(lo, la, find=False)
                            elif op.get("use") == "find":
                                b.sky2image(lo, la)
                run.event(c, "bystander", op.get("use", ""), "ok")
            except Exception as e:
                run.event(c, "bystander", op.get("use", ""), "error(%s)" % type(e).__name__)
            run.fault("another_wcs_object_created_and_used")
            continue
        if k in ("i2s", "rt", "jac"):
            shape = op["shape"]
            x, y = _args(op["pts"], shape, op.get("xdt", "f8"))
            if op.get("xdt", "f8") != "f8":
                run.fault("pixel_positions_of_type_" + op["xdt"])
            H.last_shape = "scalar" if shape == "scalar" else "array"
            guards = []
            if c15 and shape != "scalar":
                x, gx = present.make(x, op.get("px"))
                y, gy = present.make(y, op.get("py"))
                guards = [("x", gx), ("y", gy)]
            if k == "jac":
                got = judged_call("jac", (x, y), {"distort": op["distort"], "step": op["step"]},
                                  "get_jacobian(%s)" % _short((x, y)))
                _guards(run, guards, "get_jacobian")
                continue
            got = judged_call("i2s", (x, y), {"distort": op["distort"]}, "image2sky(%s, distort=%r)" % (_short((x, y)), op["distort"]))
            _guards(run, guards, "image2sky")
            if got is None:
                continue
            lon, lat = got
            if judge:
                _judge_forward(run, hdr, feats, op, x, y, lon, lat, shape, H)
                if run.failures:
                    return
            if k == "rt":
                find = op["find"]
                if distorted and op["distort"] and not find and not H.inverse_built:
                    H.inverse_built = True
                    run.fault("lazy_inverse_fit_built_late" if H.ncalls > 1 else "lazy_inverse_fit_built_first")
                lon_a, lat_a = lon, lat
                g2 = []
                if op.get("buf") and shape != "scalar" and not c15:
                    # the caller keeps ONE pair of request buffers per catalogue length and refills them in place
                    nb = int(np.size(lon))
                    if nb not in skybufs:
                        skybufs[nb] = (np.empty(nb), np.empty(nb))
                    else:
                        run.fault("request_buffers_refilled_in_place")
                    skybufs[nb][0][:] = lon
                    skybufs[nb][1][:] = lat
                    lon_a, lat_a = skybufs[nb]
                if c15 and shape != "scalar":
                    lon_a, g1_ = present.make(np.asarray(lon), op.get("px"))
                    lat_a, g2_ = present.make(np.asarray(lat), op.get("py"))
                    g2 = [("longitude", g1_), ("latitude", g2_)]
                back = judged_call("s2i", (lon_a, lat_a), {"distort": op["distort"], "find": find},
                                   "sky2image(%s, distort=%r, find=%r)" % (_short((lon, lat)), op["distort"], find))
                _guards(run, g2, "sky2image")
                if back is None or not judge:
                    continue
                xb, yb = back
                run.checks += 1
                if np.shape(xb) != np.shape(x) or np.shape(yb) != np.shape(y):
                    run.fail("wcs.shape", feats, "sky2image returned shapes %r %r for inputs of shape %r" % (np.shape(xb), np.shape(yb), np.shape(x)))
                    return
                err = np.hypot(np.asarray(xb, dtype="f8") - np.asarray(x, dtype="f8"), np.asarray(yb, dtype="f8") - np.asarray(y, dtype="f8"))
                worst = float(np.max(err))
                if find or not (distorted and op["distort"]):
                    if _poleclass(lat) != "<1e-3deg":
                        run.margin("wcs.roundtrip", worst / 1e-6)
                    if not (worst <= 1e-6):
                        j = int(np.argmax(np.atleast_1d(err)))
                        run.fail("wcs.roundtrip", dict(feats, find=find, distort=op["distort"], pole=_poleclass(lat)),
                                 "sky2image(image2sky(x,y)) is off by %.3e pixel at (%r,%r) (find=%r, distort=%r)"
                                 % (worst, np.atleast_1d(x)[j], np.atleast_1d(y)[j], find, op["distort"]))
                        return
                else:
                    # fitted polynomial: no number in the statement; the fit must actually undo the distortion
                    nofind_err.append(worst)
                    nofind_pts.append((np.atleast_1d(np.asarray(x, dtype="f8")).copy(), np.atleast_1d(np.asarray(y, dtype="f8")).copy()))
                    with warnings.catch_warnings():
                        warnings.simplefilter("ignore")
                        xu, yu = H.fresh().sky2image(lon, lat, distort=False, find=False)
                    undist_err.append(float(np.max(np.hypot(np.asarray(xu) - np.asarray(x), np.asarray(yu) - np.asarray(y)))))
        elif k == "s2i_given":
            pts = np.array(op["pts"], dtype="f8")
            with warnings.catch_warnings():
                warnings.simplefilter("ignore")
                lo3, la3 = ref_forward(hdr, pts[:, 0], pts[:, 1], op["distort"])
            lo3 = np.round(np.asarray(lo3, dtype="f8"), 6) % 360.0
            la3 = np.clip(np.round(np.asarray(la3, dtype="f8"), 6), -90, 90)
            if op["where"] == "crval":
                lo3[1], la3[1] = float(hdr["crval1"]) % 360.0, float(hdr["crval2"])
            if op["shape"] == "scalar":
                args = (float(lo3[1]), float(la3[1]))
                H.last_shape = "scalar"
            else:
                args = (lo3.copy(), la3.copy())
                H.last_shape = "array"
            back = judged_call("s2i", args, {"distort": op["distort"], "find": True},
                               "sky2image(%s, distort=%r, find=True)" % (_short(args), op["distort"]))
            if back is None or not judge:
                continue
            run.checks += 1
            xb = np.atleast_1d(np.asarray(back[0], dtype="f8"))
            yb = np.atleast_1d(np.asarray(back[1], dtype="f8"))
            tl = np.atleast_1d(np.asarray(args[0], dtype="f8"))
            tb = np.atleast_1d(np.asarray(args[1], dtype="f8"))
            nx_, ny_ = hdr["naxis1"], hdr["naxis2"]
            inimg = np.isfinite(xb) & np.isfinite(yb) & (xb >= 1) & (xb <= nx_) & (yb >= 1) & (yb <= ny_)
            if inimg.any() and _poleclass(tb) != "<1e-3deg":
                with warnings.catch_warnings():
                    warnings.simplefilter("ignore")
                    fl, fb = ref_forward(hdr, xb[inimg], yb[inimg], op["distort"])
                d = np.asarray(sep_deg(np.asarray(fl, dtype="f8"), np.asarray(fb, dtype="f8"), tl[inimg], tb[inimg]), dtype="f8")
                pixscale = math.sqrt(abs(hdr["cd1_1"] * hdr["cd2_2"] - hdr["cd1_2"] * hdr["cd2_1"]))
                tol = 1e-6 * pixscale + 1e-12
                run.margin("wcs.inverse_of_given", float(np.max(d)) / tol)
                if not np.all(d <= tol):
                    j = int(np.argmax(d))
                    run.fail("wcs.inverse_of_given", dict(feats, where=op["where"], distort=op["distort"]),
                             "sky2image(%r, %r, find=True) = (%r, %r); that pixel maps to a position %.3e deg (= %.3e pixel) away"
                             % (tl[inimg][j], tb[inimg][j], xb[inimg][j], yb[inimg][j], float(d[j]), float(d[j]) / pixscale))
                    return
        elif k == "s2i_far":
            ll = np.array(op["lonlat"], dtype="f8")
            if op["shape"] == "scalar":
                args = (float(ll[0, 0]), float(ll[0, 1]))
                H.last_shape = "scalar"
            else:
                args = (ll[:, 0].copy(), ll[:, 1].copy())
                H.last_shape = "array"
            if distorted and op["distort"] and not H.inverse_built:
                H.inverse_built = True
                run.fault("lazy_inverse_fit_built_late" if H.ncalls > 0 else "lazy_inverse_fit_built_first")
            run.fault("sky_position_far_from_the_field")
            judged_call("s2i", args, {"distort": op["distort"], "find": False}, "sky2image(%s, find=False)" % _short(args))
        elif k == "abort":
            pts = np.array(op["pts"], dtype="f8")
            a3, b2 = pts[:, 0].copy(), pts[:2, 1].copy()
            dis = bool(op.get("distort", True))
            if not dis:
                run.fault("aborted_call_asked_for_no_distortion")
            try:
                with warnings.catch_warnings():
                    warnings.simplefilter("ignore")
                    if op["how"] == "find_len_mismatch":
                        lon, lat = H.fresh().image2sky(pts[:, 0], pts[:, 1])
                        H.obj.sky2image(lon, lat[:2], find=True, distort=dis)
                    elif op["how"] == "nofind_len_mismatch":
                        if distorted and dis and not H.inverse_built:
                            H.inverse_built = True
                            run.fault("lazy_inverse_fit_built_late" if H.ncalls > 0 else "lazy_inverse_fit_built_first")
                        lon, lat = H.fresh().image2sky(pts[:, 0], pts[:, 1])
                        H.obj.sky2image(lon, lat[:2], find=False, distort=dis)
                    elif op["how"] == "jac_len_mismatch":
                        H.obj.get_jacobian(a3, b2, distort=dis)
                    else:
                        H.obj.image2sky(a3, b2, distort=dis)
                out = "ok?"
            except Exception as e:
                out = "raised(%s)" % type(e).__name__
                run.fault("call_aborted_half_way")
            H.last = "aborted"
            H.ncalls += 1
            run.event(c, "abort", op["how"], out)
        elif k == "nan":
            v = float(op["val"])
            if op["shape"] == "scalar":
                args = (v, 10.0)
                H.last_shape = "scalar"
            else:
                args = (np.array([v, 5.0, 7.0]), np.array([3.0, v, 9.0]))
                H.last_shape = "array"
            run.fault("non_finite_input")
            if op["which"] == "i2s":
                judged_call("i2s", args, {}, "image2sky(%s)" % _short(args))
            else:
                if distorted and not H.inverse_built:
                    H.inverse_built = True
                    run.fault("lazy_inverse_fit_built_late" if H.ncalls > 0 else "lazy_inverse_fit_built_first")
                judged_call("s2i", args, {"find": False}, "sky2image(%s, find=False)" % _short(args))
        elif k == "look":
            # harmless looks at the object between conversions: printing it, listing and reading its keywords
            for what in op.get("what", []):
                try:
                    if what == "repr":
                        repr(H.obj)
                    elif what == "str":
                        str(H.obj)
                    elif what == "keys":
                        list(H.obj.keys())
                    elif what == "item":
                        H.obj["crval1"], H.obj["cd1_1"]
                    elif what == "naxis":
                        H.obj.get_naxis()
                    else:
                        for key_ in list(H.obj.keys()):
                            H.obj[key_]
                except Exception:
                    pass
            run.fault("caller_looked_at_the_object")
            run.event(c, "look", ",".join(op.get("what", [])), "ok")
        elif k == "crpix":
            H.last_shape = "scalar"
            got = judged_call("i2s", (hdr["crpix1"], hdr["crpix2"]), {"distort": op["distort"]},
                              "image2sky(crpix, distort=%r)" % op["distort"])
            if got is None or not judge:
                continue
            const = any(hdr.get(k_) for k_ in ("pv1_0", "pv2_0"))
            if op["distort"] and const:
                continue
            run.checks += 1
            lon, lat = float(got[0]), float(got[1])
            d = float(sep_deg(lon, lat, hdr["crval1"], hdr["crval2"]))
            run.margin("wcs.crpix", d / 1e-9)
            if not (d <= 1e-9) or not (0.0 <= lon < 360.0):
                run.fail("wcs.crpix", feats, "image2sky(crpix) = (%r,%r), crval = (%r,%r): %.3e deg apart (longitude must be in [0,360))"
                         % (lon, lat, hdr["crval1"], hdr["crval2"], d))
                return
        if run.failures:
            return
    if judge and nofind_err:
        run.checks += 1
        worst, und = max(nofind_err), max(undist_err)
        lim = max(1e-3, 0.5 * und)
        # "to the fitted-polynomial accuracy": an INDEPENDENT inverse polynomial of the order esutil fits (total order one
        # above the distortion's, least squares on a grid over the image, in normalised coordinates) says what that
        # accuracy is at the very positions that were asked; esutil may be 50 times worse (on the unchanged tree it is
        # 1.5 - 3.5 times worse over 5000 headers), never worse than half of ignoring the distortion
        eref = None
        try:
            eref = _independent_inverse_error(hdr, H, nofind_pts)
        except Exception:
            eref = None
        if eref is not None and np.isfinite(eref):
            lim = max(1e-3, min(lim, 50.0 * eref))
        run.margin("wcs.nofind", worst / lim)
        if not (worst <= lim):
            run.fail("wcs.nofind", {"proj": proj}, "sky2image(find=False) is off by up to %.3e pixel over the sampled positions; "
                     "ignoring the distortion altogether gives %.3e, an independent inverse polynomial of the same order %s"
                     % (worst, und, "%.3e" % eref if eref is not None else "could not be fitted"))
    if run.faults:
        run.nontrivial = True


def args_d(args):
    return [adigest(np.asarray(a)) for a in args]


def _short(t):
    s = repr(tuple(np.asarray(a).tolist() if np.ndim(a) else float(a) for a in t))
    return s if len(s) < 200 else s[:200] + "..."


def _guards(run, guards, call):
    for nm, g in guards:
        run.checks += 1
        run.nontrivial = True
        bad = present.changed(g, run)
        if bad:
            run.fail("own.wcs", {"call": call, "arg": nm, "present": g["kind"]},
                     "WCS.%s modified its %s argument (%s): %s" % (call, nm, g["kind"], bad))


def _judge_forward(run, hdr, feats, op, x, y, lon, lat, shape, H):
    run.checks += 1
    lon_a = np.asarray(lon, dtype="f8")
    lat_a = np.asarray(lat, dtype="f8")
    if lon_a.shape != np.shape(x) or lat_a.shape != np.shape(y):
        run.fail("wcs.shape", feats, "image2sky returned shapes %r %r for inputs of shape %r" % (lon_a.shape, lat_a.shape, np.shape(x)))
        return
    rl, rb = ref_forward(hdr, x, y, op["distort"])
    d = sep_deg(lon_a, lat_a, rl, rb)
    worst = float(np.max(d))
    run.margin("wcs.forward", worst / 1e-9)
    if not (worst <= 1e-9):
        j = int(np.argmax(np.atleast_1d(d)))
        run.fail("wcs.forward", dict(feats, distort=op["distort"]),
                 "image2sky(%r,%r, distort=%r) = (%r,%r); the FITS-WCS reference gives (%r,%r): %.3e deg apart"
                 % (np.atleast_1d(x)[j], np.atleast_1d(y)[j], op["distort"], np.atleast_1d(lon_a)[j], np.atleast_1d(lat_a)[j],
                    np.atleast_1d(rl)[j], np.atleast_1d(rb)[j], worst))
        return
    if np.any(lon_a < 0) or np.any(lon_a >= 360):
        run.fail("wcs.lonrange", feats, "longitude outside [0,360): %r" % (lon_a,))
        return
    # scalar and array inputs agree
    if shape != "scalar":
        run.checks += 1
        with warnings.catch_warnings():
            warnings.simplefilter("ignore")
            l0, b0 = H.fresh().image2sky(float(np.asarray(x)[0]), float(np.asarray(y)[0]), distort=op["distort"])
        ds = float(sep_deg(l0, b0, lon_a[0], lat_a[0]))
        run.margin("wcs.scalar_array", ds / 1e-11)
        if not (ds <= 1e-11):
            run.fail("wcs.scalar_array", feats, "image2sky gives (%r,%r) for a scalar and (%r,%r) for the same point in an array"
                     % (l0, b0, lon_a[0], lat_a[0]))


def simplify(script):
    ops = script["ops"]
    if any(op.get("c", 0) != 0 for op in ops):
        c = dict(script)
        c["ops"] = [dict(op, c=0) for op in ops]
        yield c
    hdr = script["cfg"]["hdr"]
    for key in [k for k in hdr if (k.startswith("pv") and not k.endswith("_1")) or (k[:2] in ("a_", "b_") and not k.endswith("order"))
                or k.startswith("ap_") and not k.endswith("order") or k.startswith("bp_") and not k.endswith("order")]:
        c = dict(script)
        h2 = {k: v for k, v in hdr.items() if k != key}
        c["cfg"] = dict(script["cfg"], hdr=h2, distorted=is_distorted(h2))
        yield c
    for i, op in enumerate(ops):
        if "pts" in op and len(op["pts"]) > 1 and op.get("shape") in ("arr3", "arr16"):
            c = dict(script)
            c["ops"] = ops[:i] + [dict(op, pts=op["pts"][:1], shape="arr1")] + ops[i + 1:]
            yield c
        if op.get("shape") == "arr1":
            c = dict(script)
            c["ops"] = ops[:i] + [dict(op, shape="scalar")] + ops[i + 1:]
            yield c
