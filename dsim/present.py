"""
Presentations of array arguments for the caller-owned-memory monitor (C15): the same
values handed over as a fresh contiguous array, with the other declared byte order, as a
strided view into a larger buffer whose gaps hold canaries, or converted to float32 /
integer where the callee documents conversion.  `changed` compares the whole base buffer,
dtype, strides and flags with the snapshot taken before the call.
"""
import numpy as np

KINDS_FLOAT = [("plain", 3), ("swapped", 3), ("strided", 3), ("strided_swapped", 2), ("f4", 1.5),
               ("int", 1), ("offset", 1)]


def draw(r, base="f8", allow_convert=True, table=False):
    from .kernel import wpick
    kinds = [k for k in KINDS_FLOAT if allow_convert or k[0] not in ("f4", "int")]
    if table:
        # a structured table may also be a selection of columns of a wider table (cat[['id', 'flux']]): a view with
        # the full row size, the other columns sitting in the gaps between its fields
        kinds = kinds + [("fieldview", 2)]
    k = wpick(r, kinds)
    return {"kind": k, "stride": r.randrange(2, 4), "off": r.randrange(0, 3)}


def make(arr, spec):
    """Returns (argument, guard).  The argument holds the same values as `arr` (converted for
    f4/int)."""
    arr = np.asarray(arr)
    kind = (spec or {}).get("kind", "plain")
    stride = (spec or {}).get("stride", 2)
    off = (spec or {}).get("off", 1)
    if kind == "f4":
        src = arr.astype("f4")
    elif kind == "int":
        with np.errstate(all="ignore"):
            src = np.nan_to_num(np.clip(np.round(arr), -2 ** 31, 2 ** 31 - 1)).astype("i8")
    else:
        src = arr
    dt = src.dtype
    if kind in ("swapped", "strided_swapped"):
        dt = dt.newbyteorder()
    if kind in ("strided", "strided_swapped") and src.ndim >= 1 and src.shape[0] > 0:
        n = src.shape[0]
        base = np.empty((off + n * stride + 1,) + src.shape[1:], dtype=dt)
        base.view("u1").reshape(-1)[:] = 0xA5
        arg = base[off:off + n * stride:stride]
        arg[...] = src
    elif kind == "fieldview" and src.dtype.names and src.ndim == 1 and src.shape[0] > 0:
        names = list(src.dtype.names)
        descr = []
        for i, nm in enumerate(names):
            descr.append(("other%d" % i, "u1", (1 + (off + i) % 3,)) if i % 2 == 0 else ("other%d" % i, "S%d" % (2 + (off + i) % 4)))
            descr.append((nm, src.dtype.fields[nm][0]))
        descr.append(("otherz", "f8"))
        base = np.empty(src.shape[0], dtype=descr)
        base.view("u1").reshape(-1)[:] = 0xA5
        for nm in names:
            base[nm] = src[nm]
        arg = base[names]
    elif kind == "offset" and src.ndim >= 1 and src.shape[0] > 0:
        n = src.shape[0]
        base = np.empty((n + off + 2,) + src.shape[1:], dtype=dt)
        base.view("u1").reshape(-1)[:] = 0x5A
        arg = base[off + 1:off + 1 + n]
        arg[...] = src
    else:
        arg = np.array(src, dtype=dt, copy=True, order="C")
        base = arg
    guard = {"kind": kind, "arg": arg, "base": base, "snap": base.tobytes(),
             "descr": repr(arg.dtype.descr), "dtstr": arg.dtype.str, "shape": arg.shape,
             "strides": arg.strides,
             "flags": (arg.flags.writeable, arg.flags.c_contiguous, arg.flags.aligned, arg.flags.owndata)}
    return arg, guard


def guard_only(arg):
    """Guard for an argument that is handed over as is."""
    base = arg if arg.base is None or not isinstance(arg.base, np.ndarray) else arg.base
    return {"kind": "asis", "arg": arg, "base": base, "snap": base.tobytes(),
            "descr": repr(arg.dtype.descr), "dtstr": arg.dtype.str, "shape": arg.shape,
            "strides": arg.strides,
            "flags": (arg.flags.writeable, arg.flags.c_contiguous, arg.flags.aligned, arg.flags.owndata)}


def changed(g, run=None):
    """None if untouched, else a short description.  Counts the guarded call on `run`."""
    if run is not None:
        run.fault("guarded_" + g["kind"])
    arg = g["arg"]
    msgs = []
    if repr(arg.dtype.descr) != g["descr"] or arg.dtype.str != g["dtstr"]:
        msgs.append("dtype %s -> %s" % (g["descr"], repr(arg.dtype.descr)))
    if arg.shape != g["shape"] or arg.strides != g["strides"]:
        msgs.append("shape/strides %r/%r -> %r/%r" % (g["shape"], g["strides"], arg.shape, arg.strides))
    fl = (arg.flags.writeable, arg.flags.c_contiguous, arg.flags.aligned, arg.flags.owndata)
    if fl != g["flags"]:
        msgs.append("flags %r -> %r" % (g["flags"], fl))
    now = g["base"].tobytes()
    if now != g["snap"]:
        a = np.frombuffer(now, dtype="u1")
        b = np.frombuffer(g["snap"], dtype="u1")
        w = np.nonzero(a != b)[0]
        msgs.append("%d of %d bytes of the underlying buffer changed (first at byte %d)" % (w.size, a.size, int(w[0])))
    return "; ".join(msgs) if msgs else None
