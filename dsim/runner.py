"""
Runner: fans fixed run-index ranges out to forked workers, merges in index order, shrinks
and writes replay files for violations, matches open known findings, writes evidence.
The scheduler of *worker processes* reads the real clock only to enforce wall caps; nothing
it reads can influence the content of a run.
"""
import faulthandler
import json
import multiprocessing
import os
import pickle
import shutil
import signal
import sys
import time
import traceback

import numpy as np

from . import kernel, findings, shrink
from .kernel import Run, Streams

VERIF_DIR = os.path.dirname(os.path.dirname(os.path.abspath(__file__)))
RUN_TIMEOUT = int(os.environ.get("VERIF_RUN_TIMEOUT", "120"))
EARLY_STOP = 25     # violating runs after which a part stops handing out further batches


# --------------------------------------------------------------------------- environment

class Env(object):
    """Per-process world handles that are not part of any script (absolute paths)."""

    def __init__(self, session_dir):
        self.session_dir = session_dir
        self._disk = None

    def disk(self):
        """Fresh, empty SimDisk directory for one run."""
        d = os.path.join(self.session_dir, "w%d" % os.getpid())
        if os.path.isdir(d):
            shutil.rmtree(d, ignore_errors=True)
        os.makedirs(d)
        self._disk = d
        return d

    def cleanup(self):
        if self._disk and os.path.isdir(self._disk):
            shutil.rmtree(self._disk, ignore_errors=True)
        self._disk = None


def session_dir():
    from .build import scratch_root
    d = os.path.join(scratch_root(), "work", "s%d" % os.getpid())
    os.makedirs(d, exist_ok=True)
    return d


# --------------------------------------------------------------------------- one run

def get_engine(name):
    from . import engines
    return engines.get(name)


def execute(script, env, prop=None):
    """Execute one concrete script against the real code.  Returns Run."""
    eng = get_engine(script["engine"])
    run = Run(prop or script["prop"])
    try:
        eng.execute(script, run, env)
    finally:
        env.cleanup()
    return run


def plan(part, prop, tier, vseed, idx, avoid):
    eng = get_engine(part["engine"])
    rs = kernel.run_seed(vseed, prop, part["engine"] + ":" + part.get("mode", ""), idx)
    S = Streams(rs)
    S.index = idx
    script = eng.plan(S, prop, part.get("mode", ""), tier, avoid)
    script["engine"] = part["engine"]
    script["prop"] = prop
    script["mode"] = part.get("mode", "")
    return rs, script


_LIVE = set()       # pids (= process group ids) of forked workers that are still running


def _killpg(pid):
    """kill whatever a finished worker left behind (pool workers, controllers) -- it led its own group"""
    try:
        os.killpg(pid, signal.SIGKILL)
    except (ProcessLookupError, PermissionError, OSError):
        pass
    _LIVE.discard(pid)


class WallLimit(Exception):
    pass


def isolated(script, session, prop=None, timeout=RUN_TIMEOUT):
    """Execute a script in a forked child.  Returns dict(status, failures, digest)."""
    r, w = os.pipe()
    pid = os.fork()
    if pid == 0:
        try:
            os.close(r)
            os.setsid()          # own process group: whatever the run leaves behind is killed with it
            faulthandler.dump_traceback_later(timeout, exit=True)
            env = Env(os.path.join(session, "iso"))
            os.makedirs(env.session_dir, exist_ok=True)
            try:
                run = execute(script, env, prop)
                out = {"status": "ok", "failures": [f.as_dict() for f in run.failures],
                       "digest": run.digest()}
            except BaseException:
                out = {"status": "harness-exception", "failures": [], "digest": "",
                       "trace": traceback.format_exc()}
            with os.fdopen(w, "wb") as fh:
                pickle.dump(out, fh)
        finally:
            os._exit(0)
    os.close(w)
    chunks = []
    # not "read until EOF": a process the run left behind may hold the write end open for ever
    import select
    os.set_blocking(r, False)
    st = None
    while True:
        rd, _w, _x = select.select([r], [], [], 0.2)
        if rd:
            try:
                b = os.read(r, 1 << 16)
            except BlockingIOError:
                b = None
            if b:
                chunks.append(b)
                continue
            if b == b"":
                break
        if st is None:
            p_, s_ = os.waitpid(pid, os.WNOHANG)
            if p_ == pid:
                st = s_
                # drain what is left, then stop
                while True:
                    try:
                        b = os.read(r, 1 << 16)
                    except BlockingIOError:
                        break
                    if not b:
                        break
                    chunks.append(b)
                break
    os.close(r)
    if st is None:
        _, st = os.waitpid(pid, 0)
    _killpg(pid)
    data = b"".join(chunks)
    if data:
        try:
            return pickle.loads(data)
        except Exception:
            pass
    if os.WIFSIGNALED(st):
        sig = os.WTERMSIG(st)
        return {"status": "crash", "failures": [
            {"oracle": "crash", "features": {"signal": sig}, "msg": "child died with signal %d" % sig,
             "step": -1}], "digest": ""}
    return {"status": "hang", "failures": [
        {"oracle": "hang", "features": {}, "msg": "no result within %d s" % timeout, "step": -1}],
        "digest": ""}


# --------------------------------------------------------------------------- batches

def _new_summary():
    return {"runs": 0, "events": 0, "checks": 0, "nontrivial": 0, "faults": {}, "probes": {},
            "states": set(), "trans": set(), "virtual_s": 0.0, "inconclusive": 0,
            "digests": [], "nt_digests": [], "violations": [], "viol_count": 0,
            "known": {}, "samples": [], "spot": 0, "spot_mismatch": [], "harness": [],
            "margins": {}}


def _merge_counts(dst, src):
    for k, v in src.items():
        dst[k] = dst.get(k, 0) + v


def _merge_max(dst, src):
    for k, v in src.items():
        if v > dst.get(k, 0.0):
            dst[k] = v


_SLOWLOG = float(os.environ.get("VERIF_SLOWLOG_S", "0") or 0)       # debugging aid: report runs slower than this


def run_batch(part, prop, tier, vseed, start, count, env, open_entries, spot_every=20,
              want_samples=0):
    S = _new_summary()
    eng = get_engine(part["engine"])
    for idx in range(start, start + count):
        steer = (kernel.h64("steer/%d/%s/%d" % (vseed, prop, idx)) % 10) < 7
        avoid = open_entries if steer else []
        rs, script = plan(part, prop, tier, vseed, idx, avoid)
        faulthandler.dump_traceback_later(RUN_TIMEOUT, exit=True)
        t_run = time.time()
        try:
            run = execute(script, env, prop)
            if _SLOWLOG and time.time() - t_run > _SLOWLOG:
                sys.stderr.write("SLOW %s idx=%d %.1fs faults=%r\n" % (prop, idx, time.time() - t_run, sorted(run.faults)))
        except Exception:
            S["harness"].append({"index": idx, "trace": traceback.format_exc()[-3000:]})
            faulthandler.cancel_dump_traceback_later()
            continue
        dg = run.digest()
        if spot_every and idx % spot_every == 0 and not getattr(eng, "NO_SPOT", False):
            run2 = execute(script, env, prop)
            S["spot"] += 1
            # an inconclusive pool run (the real dispatch did not follow the model within the watchdog) is
            # timing dependent by nature; it is counted as inconclusive, not as nondeterminism of the harness
            if run2.digest() != dg and not (run.inconclusive or run2.inconclusive):
                S["spot_mismatch"].append(idx)
        faulthandler.cancel_dump_traceback_later()
        S["runs"] += 1
        S["events"] += len(run.events)
        S["checks"] += run.checks
        _merge_counts(S["faults"], run.faults)
        _merge_counts(S["probes"], run.probes)
        _merge_max(S["margins"], run.margins)
        S["states"] |= run.states
        S["trans"] |= run.trans
        S["virtual_s"] += run.virtual_s
        S["inconclusive"] += run.inconclusive
        d64 = int(dg[:16], 16)
        S["digests"].append(d64)
        if run.nontrivial:
            S["nontrivial"] += 1
            S["nt_digests"].append(d64)
        if len(S["samples"]) < want_samples:
            S["samples"].append({"index": idx, "script": eng.describe(script)
                                 if hasattr(eng, "describe") else kernel.enc(script)})
        if run.failures:
            real = []
            for f in run.failures:
                e = findings.match(open_entries, f.oracle, f.features)
                if e is not None:
                    S["known"][e["id"]] = S["known"].get(e["id"], 0) + 1
                else:
                    real.append(f)
            if real:
                S["viol_count"] += 1
                if len(S["violations"]) < 3:
                    S["violations"].append({
                        "index": idx, "run_seed": rs, "script": kernel.dumps(script),
                        "failures": [f.as_dict() for f in real], "digest": dg})
    return S


def _worker(wid, part, prop, tier, vseed, batches, counter, lock, deadline, session,
            open_entries, outpath, nviol):
    signal.signal(signal.SIGINT, signal.SIG_DFL)
    signal.signal(signal.SIGALRM, signal.SIG_DFL)
    signal.alarm(0)
    os.setsid()
    env = Env(session)
    try:
        import esutil  # noqa: F401  (module-level code only: nothing of esutil is CALLED in this process)
    except Exception:
        pass
    with open(outpath, "ab") as out:
        while True:
            with lock:
                k = counter.value
                counter.value = k + 1
            if k >= len(batches):
                break
            if time.time() > deadline or nviol.value >= EARLY_STOP:
                break
            start, count = batches[k]
            pickle.dump(("start", k), out)
            out.flush()
            # every batch runs in a process of its own, forked from this one, in which esutil has never been used:
            # whatever esutil keeps per process (C statics, module-level caches, default-argument objects) is in its
            # initial state at the first run of each batch -- a process start is part of the histories -- and a batch
            # that kills its process (crash, per-run watchdog) does not take the worker with it
            sys.stdout.flush()
            sys.stderr.flush()
            cpid = os.fork()
            if cpid == 0:
                code = 0
                try:
                    S = run_batch(part, prop, tier, vseed, start, count, env, open_entries,
                                  want_samples=2 if k == 0 else 0)
                    pickle.dump(("done", k, S), out)
                    out.flush()
                    if S["viol_count"]:
                        with lock:
                            nviol.value += S["viol_count"]
                except BaseException:
                    traceback.print_exc()
                    code = 3
                os._exit(code)
            while True:
                try:
                    os.waitpid(cpid, 0)
                    break
                except InterruptedError:
                    continue
                except ChildProcessError:
                    break
    os._exit(0)


def _read_stream(path):
    recs = []
    if not os.path.exists(path):
        return recs
    with open(path, "rb") as fh:
        while True:
            try:
                recs.append(pickle.load(fh))
            except EOFError:
                break
            except Exception:
                break
    return recs


def run_part(part, prop, tier, vseed, n_runs, jobs, wall_cap, session, open_entries, log):
    """Run indices [0, n_runs) of one part.  Returns (merged summary, info)."""
    t0 = time.time()
    bs = part.get("batch", 0) or max(1, min(2000, n_runs // (jobs * 6) or 1))
    batches = [(s, min(bs, n_runs - s)) for s in range(0, n_runs, bs)]
    ctx = multiprocessing.get_context("fork")
    counter = ctx.Value("q", 0, lock=False)
    nviol = ctx.Value("q", 0, lock=False)
    lock = ctx.Lock()
    deadline = t0 + wall_cap
    pids = {}
    nw = max(1, min(jobs, len(batches)))
    for w in range(nw):
        outpath = os.path.join(session, "res-%s-%d.pkl" % (part["engine"] + part.get("mode", ""), w))
        if os.path.exists(outpath):
            os.unlink(outpath)
        sys.stdout.flush()
        sys.stderr.flush()
        pid = os.fork()
        if pid == 0:
            try:
                _worker(w, part, prop, tier, vseed, batches, counter, lock, deadline, session,
                        open_entries, outpath, nviol)
            except BaseException:
                traceback.print_exc()
                os._exit(3)
            os._exit(0)
        pids[pid] = outpath
        _LIVE.add(pid)
    dead = []
    for pid, outpath in pids.items():
        _, st = os.waitpid(pid, 0)
        _killpg(pid)
        if st != 0:
            dead.append((pid, st, outpath))
    done = {}
    started = {}
    for pid, outpath in pids.items():
        for rec in _read_stream(outpath):
            if rec[0] == "start":
                started[rec[1]] = outpath
            elif rec[0] == "done":
                done[rec[1]] = rec[2]
        try:
            os.unlink(outpath)
        except OSError:
            pass
    crashed_batches = sorted(k for k in started if k not in done)
    M = _new_summary()
    for k in sorted(done):
        S = done[k]
        for key in ("runs", "events", "checks", "nontrivial", "inconclusive", "viol_count", "spot"):
            M[key] += S[key]
        M["virtual_s"] += S["virtual_s"]
        _merge_counts(M["faults"], S["faults"])
        _merge_counts(M["probes"], S["probes"])
        _merge_counts(M["known"], S["known"])
        _merge_max(M["margins"], S["margins"])
        M["states"] |= S["states"]
        M["trans"] |= S["trans"]
        M["digests"].extend(S["digests"])
        M["nt_digests"].extend(S["nt_digests"])
        M["violations"].extend(S["violations"])
        M["samples"].extend(S["samples"])
        M["spot_mismatch"].extend(S["spot_mismatch"])
        M["harness"].extend(S["harness"])
    info = {"planned": n_runs, "batches": len(batches), "batches_done": len(done),
            "crashed_batches": [batches[k] for k in crashed_batches],
            "dead_workers": [(p, s) for p, s, _ in dead],
            "capped": len(done) + len(crashed_batches) < len(batches) and nviol.value < EARLY_STOP,
            "stopped_early_on_violations": nviol.value >= EARLY_STOP,
            "wall_s": round(time.time() - t0, 2)}
    return M, info


def locate_crash(part, prop, tier, vseed, batch, session, open_entries):
    """A worker died inside `batch`: find the first run that crashes/hangs when executed
    alone in a forked child."""
    start, count = batch
    for idx in range(start, start + count):
        rs, script = plan(part, prop, tier, vseed, idx, [])
        res = isolated(script, session, prop)
        if res["status"] in ("crash", "hang"):
            return {"index": idx, "run_seed": rs, "script": kernel.dumps(script),
                    "failures": res["failures"], "digest": ""}
    return None


# --------------------------------------------------------------------------- check

def write_replay(prop, vseed, v, script, minimised, orig_ops):
    d = os.environ.get("VERIF_REPLAY_DIR") or os.path.join(VERIF_DIR, "replays")
    os.makedirs(d, exist_ok=True)
    f0 = v["failures"][0]
    name = "%s-%d-%d-%s.json" % (prop, vseed, v["index"], (v.get("digest") or "crash")[:8])
    path = os.path.join(d, name)
    doc = {"property": prop, "engine": script["engine"], "mode": script.get("mode", ""),
           "seed": vseed, "index": v["index"], "run_seed": v["run_seed"],
           "oracle": f0["oracle"], "features": f0["features"], "msg": f0["msg"],
           "digest": v.get("digest", ""), "minimised": minimised, "original_ops": orig_ops,
           "ops": len(script.get("ops", [])), "script": kernel.enc(script)}
    with open(path, "w") as fh:
        json.dump(doc, fh, indent=1, sort_keys=True)
    return path


def check(prop, tier, spec, vseed, jobs, build_info, log=print):
    """spec: property spec from props.py.  Returns exit code."""
    t0 = time.time()
    session = session_dir()
    fnd = findings.load()
    open_entries = findings.open_for(fnd, prop)
    total = _new_summary()
    infos = []
    harness_errors = []
    violations = []
    scale = float(os.environ.get("VERIF_SCALE", "1"))
    # last resort: the whole check has a wall limit (per-part caps + watchdog periods + minimisation); if
    # it is ever hit, everything forked is killed and the check ends as a harness error, never as exit 0
    limit = int(sum(part.get("cap_" + tier, spec.get("cap_" + tier, 120 if tier == "quick" else 3000))
                    for part in spec["parts"]) + 3 * RUN_TIMEOUT + (600 if tier == "quick" else 1800))

    def _on_alarm(signum, frame):
        raise WallLimit()
    old_handler = signal.signal(signal.SIGALRM, _on_alarm)
    signal.alarm(limit)
    try:
        for part in spec["parts"]:
            n = max(1, int(part[tier] * scale))
            cap = part.get("cap_" + tier, spec.get("cap_" + tier, 120 if tier == "quick" else 3000))
            M, info = run_part(part, prop, tier, vseed, n, jobs, cap, session, open_entries, log)
            info["engine"] = part["engine"]
            info["mode"] = part.get("mode", "")
            info["runs"] = M["runs"]
            infos.append(info)
            # a worker that dies (signal, or the per-run watchdog on a hang) leaves a batch unfinished: the
            # lowest such batch is searched run by run for the culprit; one located crash/hang is enough,
            # the other unfinished batches are only counted (each hang costs a full watchdog period)
            for bi, b in enumerate(info["crashed_batches"]):
                if bi > 0 and M["viol_count"] > 0:
                    info["crashed_batches_not_searched"] = len(info["crashed_batches"]) - bi
                    break
                v = locate_crash(part, prop, tier, vseed, b, session, open_entries)
                if v is None:
                    harness_errors.append("worker died in batch %r of %s but no single run "
                                          "reproduces it" % (b, part["engine"]))
                else:
                    M["violations"].append(v)
                    M["viol_count"] += 1
            if info["dead_workers"] and not info["crashed_batches"]:
                harness_errors.append("worker(s) died outside a batch: %r" % info["dead_workers"])
            for key in ("runs", "events", "checks", "nontrivial", "inconclusive", "viol_count", "spot"):
                total[key] += M[key]
            total["virtual_s"] += M["virtual_s"]
            _merge_counts(total["faults"], M["faults"])
            _merge_counts(total["probes"], M["probes"])
            _merge_counts(total["known"], M["known"])
            _merge_max(total["margins"], M["margins"])
            total["states"] |= set(part["engine"] + ":" + s for s in M["states"])
            total["trans"] |= set(part["engine"] + ":" + s for s in M["trans"])
            total["digests"].extend(M["digests"])
            total["nt_digests"].extend(M["nt_digests"])
            total["samples"].extend(M["samples"][:2])
            total["spot_mismatch"].extend((part["engine"], i) for i in M["spot_mismatch"])
            for h in M["harness"]:
                harness_errors.append("run %d of %s raised in the harness:\n%s"
                                      % (h["index"], part["engine"], h["trace"]))
            for v in M["violations"]:
                v["part"] = part
                violations.append(v)

        # ---- violations: one replay per distinct oracle id, lowest index first
        replays = []
        seen = set()
        violations.sort(key=lambda v: (v["failures"][0]["oracle"], v["index"]))
        budget = 40 if tier == "quick" else 120
        for v in violations:
            oid = v["failures"][0]["oracle"]
            if oid in seen or len(seen) >= 3:
                continue
            seen.add(oid)
            script = kernel.loads(v["script"])
            orig = len(script.get("ops", []))
            small, ok = shrink.minimise(script, oid, session, prop, budget)
            if ok:
                res = isolated(small, session, prop)
                v = dict(v)
                v["failures"] = [f for f in res["failures"] if f["oracle"] == oid] or v["failures"]
                v["digest"] = res.get("digest", "")
                path = write_replay(prop, vseed, v, small, True, orig)
            else:
                path = write_replay(prop, vseed, v, script, False, orig)
            replays.append((oid, path, v["failures"][0]))

        wall = time.time() - t0
        nd = int(np.unique(np.array(total["digests"], dtype=np.uint64)).size) if total["digests"] else 0
        nnt = int(np.unique(np.array(total["nt_digests"], dtype=np.uint64)).size) if total["nt_digests"] else 0
        known_lines = []
        for e in open_entries:
            c = total["known"].get(e["id"], 0)
            if c:
                known_lines.append((e, c))
        ev = {
            "property_id": prop, "tier": tier, "seed": vseed, "level": "exploration",
            "coverage": {
                "evaluations": total["runs"],
                "distinct_nontrivial": nnt,
                "rule": spec["rule"],
                "samples": total["samples"][:3],
                "distinct_run_digests": nd,
                "states": len(total["states"]),
                "transitions": len(total["trans"]),
                "state_measure": spec.get("state_measure", ""),
                "operations_executed": total["events"],
                "oracle_evaluations": total["checks"],
                "faults_fired": dict(sorted(total["faults"].items())),
                "probes": dict(sorted(total["probes"].items())),
                "largest_error_over_tolerance": {k: float("%.3g" % v) for k, v in sorted(total["margins"].items())},
                "simulated_seconds": round(total["virtual_s"], 3),
                "runs_per_hour": int(total["runs"] / max(wall, 1e-9) * 3600),
                "inconclusive_runs": total["inconclusive"],
                "determinism_spot_checks": total["spot"],
                "determinism_spot_mismatches": len(total["spot_mismatch"]),
                "known_findings_matched": {e["id"]: c for e, c in known_lines},
                "parts": infos,
                "components_real": spec.get("real", []),
                "components_stub": spec.get("stub", []),
                "build": build_info,
                "jobs": jobs,
            },
            "assumptions": spec.get("assumptions", []),
            "wall_s": round(wall, 2),
            "violations": total["viol_count"],
        }
        evdir = os.environ.get("VERIF_EVIDENCE_DIR") or os.path.join(VERIF_DIR, "evidence")
        os.makedirs(evdir, exist_ok=True)
        with open(os.path.join(evdir, prop + ".json"), "w") as fh:
            json.dump(ev, fh, indent=1, sort_keys=True)
            fh.write("\n")

        log("property=%s tier=%s seed=%d runs=%d distinct=%d nontrivial=%d states=%d transitions=%d "
            "ops=%d faults=%d wall=%.1fs" % (prop, tier, vseed, total["runs"], nd, nnt,
                                              len(total["states"]), len(total["trans"]),
                                              total["events"], sum(total["faults"].values()), wall))
        for e, c in known_lines:
            log("KNOWN-FINDING: property=%s %s (%s; matched %d times)" % (prop, e["summary"], e["id"], c))
        if replays:
            for oid, path, f0 in replays:
                log("  oracle=%s features=%s\n  %s" % (oid, json.dumps(f0["features"], sort_keys=True),
                                                      f0["msg"][:1500]))
                log("VIOLATION property=%s replay=%s" % (prop, path))
            return 1
        if harness_errors:
            for h in harness_errors[:5]:
                log("HARNESS-ERROR: " + h)
            return 2
        if total["spot_mismatch"]:
            log("HARNESS-ERROR: nondeterministic runs (same script, different digest): %r"
                % total["spot_mismatch"][:10])
            return 2
        if total["runs"] == 0:
            log("HARNESS-ERROR: no run completed")
            return 2
        return 0
    except WallLimit:
        for pid in list(_LIVE):
            _killpg(pid)
        log("HARNESS-ERROR: the check did not finish within its wall limit of %d s; all forked processes were killed" % limit)
        return 2
    finally:
        signal.alarm(0)
        signal.signal(signal.SIGALRM, old_handler)
        for pid in list(_LIVE):
            _killpg(pid)
        shutil.rmtree(session, ignore_errors=True)


def replay(path, log=print):
    with open(path) as fh:
        doc = json.load(fh)
    script = kernel.dec(doc["script"])
    session = session_dir()
    try:
        res = isolated(script, session, doc["property"])
        res2 = isolated(script, session, doc["property"])
    finally:
        shutil.rmtree(session, ignore_errors=True)
    oids = [f["oracle"] for f in res["failures"]]
    log("replay %s: status=%s oracles=%s digest=%s" % (path, res["status"], oids, res["digest"][:16]))
    if res["status"] == "harness-exception":
        log(res.get("trace", ""))
        log("REPLAY-MISMATCH: harness exception")
        return 2
    if res["digest"] != res2["digest"] or oids != [f["oracle"] for f in res2["failures"]]:
        log("REPLAY-MISMATCH: two executions of the replay file differ")
        return 2
    if doc["oracle"] in oids:
        for f in res["failures"]:
            if f["oracle"] == doc["oracle"]:
                log("  " + f["msg"][:2000])
                break
        if doc.get("digest") and res["digest"] != doc["digest"]:
            log("note: oracle reproduced; event digest differs from the recorded one "
                "(the tree changed since the file was written)")
        log("VIOLATION property=%s replay=%s" % (doc["property"], path))
        return 1
    if oids:
        log("REPLAY-MISMATCH: fails with %s instead of %s" % (oids, doc["oracle"]))
        return 2
    log("replay does not fail on this tree")
    return 0
