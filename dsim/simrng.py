"""
SimRNG -- the random source owned by the simulator.  Duck-types numpy's legacy RandomState
or new-style Generator (a method the real flavour lacks raises AttributeError here too).
Every deviate comes from a seeded PCG64 stream, is recorded, and with a per-run probability
is replaced by an edge deviate the real generator may legally return, by a repeated previous
value, or by a target value injected by the engine.
"""
import numpy as np

LEGACY = {"uniform", "random_sample", "random", "rand", "randn", "normal", "standard_normal", "randint",
          "choice", "permutation", "shuffle"}
NEW = {"uniform", "random", "normal", "standard_normal", "integers", "choice", "permutation", "shuffle"}

U_EDGES = np.array([0.0, 2.0 ** -53, 1.0 - 2.0 ** -53, 0.5, 0.25, 0.75, 2.0 ** -30, 1.0 - 2.0 ** -30])


class SimRNG(object):
    def __init__(self, seed, flavour="legacy", edge_rate=0.0, targets=None, closed=False):
        self._g = np.random.Generator(np.random.PCG64(seed))
        self._flavour = flavour
        self._allowed = LEGACY if flavour == "legacy" else NEW
        self._edge_rate = float(edge_rate)
        self._targets = None if targets is None else np.asarray(targets, dtype="f8")
        # closed=True: a stub source over the CLOSED unit interval (C19's quantifier for the samplers:
        # "all u in [0,1] supplied through a stub generator"): 1.0 itself can be returned
        self._closed = bool(closed)
        self.log = []           # (method, note, values)
        self.edges_fired = {}   # kind -> count
        self.calls = 0

    def __getattr__(self, name):
        # only reached for names not defined below or filtered out
        raise AttributeError("%s-style SimRNG has no attribute %r" % (self.__dict__.get("_flavour"), name))

    def _check(self, name):
        if name not in self._allowed:
            raise AttributeError("%s-style generator has no method %r" % (self._flavour, name))
        self.calls += 1

    def _count(self, kind, n):
        if n:
            self.edges_fired[kind] = self.edges_fired.get(kind, 0) + int(n)

    # ------------------------------------------------------------- unit deviates with edges
    def _unit(self, size):
        n = 1 if size is None else int(np.prod(size))
        u = self._g.random(n)
        if self._edge_rate > 0 and n:
            m = self._g.random(n) < self._edge_rate
            k = int(m.sum())
            if k:
                choice = self._g.integers(0, 3 if self._targets is not None and self._targets.size else 2, k)
                vals = np.empty(k)
                idx = np.nonzero(m)[0]
                for j in range(k):
                    c = choice[j]
                    if c == 0:
                        if self._closed and self._g.random() < 0.25:
                            vals[j] = 1.0
                            self._count("closed_end_value", 1)
                        else:
                            vals[j] = U_EDGES[self._g.integers(0, U_EDGES.size)]
                            self._count("edge_value", 1)
                    elif c == 1:
                        vals[j] = u[self._g.integers(0, n)]
                        self._count("repeated_value", 1)
                    else:
                        vals[j] = self._targets[self._g.integers(0, self._targets.size)]
                        self._count("target_value", 1)
                u[idx] = vals
        return u

    def _shape(self, a, size):
        if size is None:
            return float(a[0])
        return a.reshape(size)

    # ------------------------------------------------------------- API
    def random(self, size=None):
        self._check("random")
        u = self._unit(size)
        self.log.append(("random", "", u.copy()))
        return self._shape(u, size)

    def random_sample(self, size=None):
        self._check("random_sample")
        u = self._unit(size)
        self.log.append(("random", "", u.copy()))
        return self._shape(u, size)

    def rand(self, *shape):
        self._check("rand")
        size = shape if shape else None
        u = self._unit(size)
        self.log.append(("random", "", u.copy()))
        return self._shape(u, size)

    def uniform(self, low=0.0, high=1.0, size=None):
        self._check("uniform")
        low_f, high_f = float(low), float(high)
        u = self._unit(size)
        v = low_f + (high_f - low_f) * u
        if low_f < high_f:
            # exact edges; `high` itself is never returned unless low == high
            v[u == 0.0] = low_f
            top = np.nextafter(high_f, low_f)
            if self._closed:
                v[u == 1.0] = high_f
                v[(v >= high_f) & (u != 1.0)] = top
            else:
                v[v >= high_f] = top
            m = u == 2.0 ** -53
            v[m] = np.nextafter(low_f, high_f)
            m = u == 1.0 - 2.0 ** -53
            v[m] = top
        elif low_f == high_f:
            v[:] = low_f
        # the log holds what was DELIVERED: on the unit interval that is v itself (edge mapping included)
        self.log.append(("uniform", "%r,%r" % (low_f, high_f), v.copy() if (low_f, high_f) == (0.0, 1.0) else u.copy()))
        return self._shape(v, size)

    def _normal(self, size):
        n = 1 if size is None else int(np.prod(size))
        z = self._g.standard_normal(n)
        if self._edge_rate > 0 and n:
            m = self._g.random(n) < self._edge_rate
            k = int(m.sum())
            if k:
                edges = np.array([0.0, -0.0, 1.0, -1.0, 8.0, -8.0, 1e-300, 37.0])
                z[m] = edges[self._g.integers(0, edges.size, k)]
                self._count("edge_value", k)
        return z

    def standard_normal(self, size=None):
        self._check("standard_normal")
        z = self._normal(size)
        self.log.append(("normal", "", z.copy()))
        return self._shape(z, size)

    def randn(self, *shape):
        self._check("randn")
        size = shape if shape else None
        z = self._normal(size)
        self.log.append(("normal", "", z.copy()))
        return self._shape(z, size)

    def normal(self, loc=0.0, scale=1.0, size=None):
        self._check("normal")
        z = self._normal(size)
        self.log.append(("normal", "%r,%r" % (loc, scale), z.copy()))
        return self._shape(loc + scale * z, size)

    def _ints(self, low, high, size):
        n = 1 if size is None else int(np.prod(size))
        v = self._g.integers(low, high, n)
        if self._edge_rate > 0 and n and high - low > 0:
            m = self._g.random(n) < self._edge_rate
            k = int(m.sum())
            if k:
                v[m] = np.where(self._g.random(k) < 0.5, low, high - 1)
                self._count("edge_value", k)
        self.log.append(("ints", "%d,%d" % (low, high), v.copy()))
        return int(v[0]) if size is None else v.reshape(size)

    def randint(self, low, high=None, size=None, dtype=int):
        self._check("randint")
        if high is None:
            low, high = 0, low
        return self._ints(int(low), int(high), size)

    def integers(self, low, high=None, size=None, dtype=np.int64, endpoint=False):
        self._check("integers")
        if high is None:
            low, high = 0, low
        return self._ints(int(low), int(high) + (1 if endpoint else 0), size)

    def permutation(self, x):
        self._check("permutation")
        if isinstance(x, (int, np.integer)):
            arr = np.arange(int(x))
        else:
            arr = np.array(x)
        p = self._g.permutation(arr.shape[0])
        self.log.append(("perm", "%d" % arr.shape[0], p.copy()))
        return arr[p]

    def shuffle(self, x):
        self._check("shuffle")
        p = self._g.permutation(len(x))
        self.log.append(("perm", "%d" % len(x), p.copy()))
        x[:] = np.array(x)[p]

    def choice(self, a, size=None, replace=True, p=None, **kw):
        self._check("choice")
        if isinstance(a, (int, np.integer)):
            pool = np.arange(int(a))
        else:
            pool = np.asarray(a)
        n = 1 if size is None else int(np.prod(size))
        if p is not None:
            raise NotImplementedError("SimRNG.choice with p=")
        if replace:
            idx = self._g.integers(0, pool.shape[0], n) if pool.shape[0] else np.zeros(0, dtype="i8")
            if pool.shape[0] == 0 and n:
                raise ValueError("a must be non-empty")
            if self._edge_rate > 0 and n:
                m = self._g.random(n) < self._edge_rate
                k = int(m.sum())
                if k:
                    # repeats and range ends are legal with replacement
                    idx[m] = np.where(self._g.random(k) < 0.5, 0, pool.shape[0] - 1)
                    self._count("edge_value", k)
        else:
            if n > pool.shape[0]:
                raise ValueError("Cannot take a larger sample than population when replace is False")
            idx = self._g.permutation(pool.shape[0])[:n]
        self.log.append(("choice", "%d,%s" % (pool.shape[0], replace), idx.copy()))
        out = pool[idx]
        return out[0] if size is None else out.reshape(size)


def global_state_token():
    """Poison + fingerprint of numpy's global legacy generator."""
    np.random.seed(987654321)
    st = np.random.get_state()
    return (st[0], st[1].tobytes(), st[2], st[3], st[4])


def global_state_now():
    st = np.random.get_state()
    return (st[0], st[1].tobytes(), st[2], st[3], st[4])
