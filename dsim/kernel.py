"""
Simulation kernel: seeds and named streams, lossless script codec, event log and digest,
result container.  Nothing in here reads a clock, a pid, os.urandom, id() or hash() of a
string; logging never draws from a PRNG.
"""
import hashlib
import json
import math
import random

import numpy as np


# --------------------------------------------------------------------------- seeds

def h64(text):
    return int(hashlib.sha256(text.encode("utf-8")).hexdigest()[:16], 16)


def run_seed(verif_seed, prop, engine, index):
    return h64("%d/%s/%s/%d" % (verif_seed, prop, engine, index))


class Streams(object):
    """Named child streams of one run seed.  A component's draws never shift another's."""

    def __init__(self, seed):
        self.seed = int(seed)
        self._py = {}
        self._np = {}

    def py(self, name):
        r = self._py.get(name)
        if r is None:
            r = self._py[name] = random.Random(h64("%d/py/%s" % (self.seed, name)))
        return r

    def np(self, name):
        r = self._np.get(name)
        if r is None:
            r = self._np[name] = np.random.Generator(
                np.random.PCG64(h64("%d/np/%s" % (self.seed, name))))
        return r


def chance(rng, p):
    return rng.random() < p


def pick(rng, seq):
    return seq[rng.randrange(len(seq))]


def wpick(rng, pairs):
    """pairs: [(item, weight), ...] -- deterministic weighted choice."""
    tot = 0.0
    for _, w in pairs:
        tot += w
    x = rng.random() * tot
    acc = 0.0
    for it, w in pairs:
        acc += w
        if x < acc:
            return it
    return pairs[-1][0]


# --------------------------------------------------------------------------- codec

def enc(o):
    """Lossless, JSON-able encoding of script values (arrays, bytes, tuples, non-finite
    floats, dtypes, slices, nested containers)."""
    if o is None or isinstance(o, (bool, str)):
        return o
    if isinstance(o, (int, np.integer)) and not isinstance(o, (bool, np.bool_)):
        return int(o)
    if isinstance(o, (np.bool_,)):
        return bool(o)
    if isinstance(o, (float, np.floating)):
        f = float(o)
        if math.isfinite(f) and not (f == 0.0 and math.copysign(1.0, f) < 0):
            return f
        return {"__t": "f", "v": f.hex() if math.isfinite(f) else repr(f)}
    if isinstance(o, complex):
        return {"__t": "c", "re": enc(o.real), "im": enc(o.imag)}
    if isinstance(o, bytes):
        return {"__t": "b", "hex": o.hex()}
    if isinstance(o, tuple):
        return {"__t": "t", "v": [enc(x) for x in o]}
    if isinstance(o, list):
        return [enc(x) for x in o]
    if isinstance(o, dict):
        if all(isinstance(k, str) for k in o) and "__t" not in o:
            return {k: enc(v) for k, v in o.items()}
        return {"__t": "d", "v": [[enc(k), enc(v)] for k, v in o.items()]}
    if isinstance(o, slice):
        return {"__t": "sl", "v": [enc(o.start), enc(o.stop), enc(o.step)]}
    if isinstance(o, np.dtype):
        return {"__t": "dt", "descr": enc_descr(o)}
    if isinstance(o, np.ndarray):
        a = np.ascontiguousarray(o)
        return {"__t": "nd", "descr": enc_descr(a.dtype), "shape": list(a.shape),
                "hex": a.tobytes().hex()}
    if isinstance(o, np.generic):
        return enc(o.item())
    raise TypeError("cannot encode %r" % type(o))


def enc_descr(dt):
    if dt.names is None:
        if dt.subdtype is not None:
            base, shp = dt.subdtype
            return [base.str, list(shp)]
        return dt.str
    out = []
    for n in dt.names:
        f = dt.fields[n][0]
        if f.subdtype is not None:
            base, shp = f.subdtype
            out.append([n, base.str, list(shp)])
        else:
            out.append([n, f.str])
    return out


def dec_descr(d):
    if isinstance(d, str):
        return np.dtype(d)
    if len(d) == 2 and isinstance(d[0], str) and isinstance(d[1], list) and \
            (len(d[1]) == 0 or isinstance(d[1][0], int)):
        return np.dtype((d[0], tuple(d[1])))
    lst = []
    for e in d:
        if len(e) == 3:
            lst.append((e[0], e[1], tuple(e[2])))
        else:
            lst.append((e[0], e[1]))
    return np.dtype(lst)


def dec(o):
    if isinstance(o, list):
        return [dec(x) for x in o]
    if isinstance(o, dict):
        t = o.get("__t")
        if t is None:
            return {k: dec(v) for k, v in o.items()}
        if t == "f":
            v = o["v"]
            if v in ("nan", "inf", "-inf"):
                return float(v)
            return float.fromhex(v)
        if t == "c":
            return complex(dec(o["re"]), dec(o["im"]))
        if t == "b":
            return bytes.fromhex(o["hex"])
        if t == "t":
            return tuple(dec(x) for x in o["v"])
        if t == "d":
            return {_hashable(dec(k)): dec(v) for k, v in o["v"]}
        if t == "sl":
            return slice(*[dec(x) for x in o["v"]])
        if t == "dt":
            return dec_descr(o["descr"])
        if t == "nd":
            dt = dec_descr(o["descr"])
            a = np.frombuffer(bytes.fromhex(o["hex"]), dtype=dt)
            return a.reshape(o["shape"]).copy()
        raise ValueError("unknown tag %r" % t)
    return o


def _hashable(k):
    if isinstance(k, list):
        return tuple(k)
    return k


def dumps(o):
    return json.dumps(enc(o), sort_keys=True, separators=(",", ":"))


def loads(s):
    return dec(json.loads(s))


# --------------------------------------------------------------------------- digests

def adigest(a):
    """Short digest of an array result: dtype description, shape and bytes."""
    if a is None:
        return "none"
    if isinstance(a, tuple):
        return "t(" + ",".join(adigest(x) for x in a) + ")"
    if isinstance(a, (list,)):
        return "l(" + ",".join(adigest(x) for x in a) + ")"
    if isinstance(a, dict):
        return "d(" + ",".join("%s:%s" % (k, adigest(a[k])) for k in sorted(a, key=str)) + ")"
    if isinstance(a, np.ndarray) and a.dtype.kind == "O":
        return "o(" + ",".join(adigest(x) for x in a.reshape(-1).tolist()) + ")"      # (the bytes of an object array are addresses)
    if isinstance(a, np.ndarray):
        h = hashlib.sha256()
        h.update(repr(enc_descr(a.dtype)).encode())
        h.update(repr(a.shape).encode())
        h.update(np.ascontiguousarray(a).tobytes())
        return h.hexdigest()[:16]
    if isinstance(a, (float, np.floating)):
        return float(a).hex() if math.isfinite(float(a)) else repr(float(a))
    if isinstance(a, np.generic):
        return repr(a.item())
    return repr(a)


def sdigest(obj):
    return hashlib.sha256(dumps(obj).encode()).hexdigest()[:16]


# --------------------------------------------------------------------------- results

class Failure(object):
    """One failed oracle.  `oracle` is a stable id, `features` a small dict used to match
    open known findings, `msg` free text (never part of the identity)."""

    __slots__ = ("oracle", "features", "msg", "step")

    def __init__(self, oracle, features=None, msg="", step=-1):
        self.oracle = oracle
        self.features = dict(features or {})
        self.msg = msg
        self.step = step

    def as_dict(self):
        return {"oracle": self.oracle, "features": self.features, "msg": self.msg,
                "step": self.step}


class Run(object):
    """Mutable record of one execution of one script."""

    def __init__(self, prop):
        self.prop = prop
        self.events = []        # (step, caller, kind, argsdigest, outcome, resultdigest)
        self.failures = []      # [Failure]
        self.faults = {}        # perturbation kind -> times it actually fired
        self.probes = {}        # rare-condition probes
        self.states = set()     # abstract states (strings)
        self.trans = set()      # abstract transitions (strings)
        self.virtual_s = 0.0
        self.inconclusive = 0
        self.nontrivial = False
        self.step = 0
        self.checks = 0         # number of oracle evaluations
        self.margins = {}       # oracle -> largest observed error/tolerance ratio (calibration)

    def event(self, caller, kind, args, outcome, result=""):
        self.events.append([self.step, caller, kind, args, outcome, result])

    def fault(self, kind, n=1):
        self.faults[kind] = self.faults.get(kind, 0) + n

    def margin(self, oracle, ratio):
        try:
            ratio = float(ratio)
        except Exception:
            return
        if ratio == ratio and ratio > self.margins.get(oracle, 0.0):
            self.margins[oracle] = ratio

    def probe(self, name, n=1):
        self.probes[name] = self.probes.get(name, 0) + n

    def fail(self, oracle, features=None, msg=""):
        self.failures.append(Failure(oracle, features, msg, self.step))

    def digest(self):
        return hashlib.sha256(
            json.dumps(self.events, sort_keys=True, separators=(",", ":")).encode()
        ).hexdigest()


class Precondition(Exception):
    """Raised by an op whose precondition does not hold: logged as skipped, no effect."""


class HarnessBug(Exception):
    """Raised when the harness's own preparation of a step fails (never esutil's doing): engines re-raise it
    instead of judging it, so it ends as HARNESS-ERROR (exit 2), never as a VIOLATION."""


def scribble(obj, depth=0):
    """The caller owns what a call returned and may edit it in place.  Overwrites every array found in `obj`
    (tuples, lists, dicts, structured arrays) with garbage.  Later answers of the library must not change because of
    it: this is the generic probe for results that are shared with a cache or with the object's own state."""
    n = 0
    if depth > 4:
        return 0
    if isinstance(obj, np.ndarray):
        if not obj.flags.writeable or obj.size == 0:
            return 0
        try:
            if obj.dtype.names:
                for nm in obj.dtype.names:
                    n += scribble(obj[nm], depth + 1)
                return n
            k = obj.dtype.kind
            if k == "f" or k == "c":
                obj[...] = np.nan
            elif k in "iu":
                obj[...] = 113
            elif k == "b":
                obj[...] = ~obj
            elif k == "S":
                obj[...] = b"#"
            elif k == "U":
                obj[...] = "#"
            else:
                return 0
            return 1
        except Exception:
            return 0
    if isinstance(obj, (tuple, list)):
        for x in obj:
            n += scribble(x, depth + 1)
    elif isinstance(obj, dict):
        for x in list(obj.values()):
            n += scribble(x, depth + 1)
    return n


def _arrays_in(obj, out, depth=0):
    if depth > 4:
        return
    if isinstance(obj, np.ndarray):
        if obj.size:
            out.append(obj)
    elif isinstance(obj, (tuple, list)):
        for x in obj:
            _arrays_in(x, out, depth + 1)
    elif isinstance(obj, dict):
        for x in obj.values():
            _arrays_in(x, out, depth + 1)


class Held(object):
    """Results the caller is still holding.  `hold` remembers every array of a judged result together with its
    bytes; `settle` -- called before the NEXT operation's results are used, i.e. after the library has been called
    again -- first verifies that the library has not changed what it handed out earlier (a result that is a view of
    a work buffer or of a cache is overwritten by the next call), then lets the caller edit the arrays in place
    (`scribble`)."""

    def __init__(self):
        self.items = []

    def hold(self, obj):
        arrs = []
        _arrays_in(obj, arrs)
        for a in arrs:
            try:
                self.items.append((a, np.ascontiguousarray(a).tobytes()))
            except Exception:
                pass

    def changed(self):
        """index of the first held array whose bytes changed, or None"""
        for i, (a, snap) in enumerate(self.items):
            try:
                if np.ascontiguousarray(a).tobytes() != snap:
                    return i
            except Exception:
                continue
        return None

    def settle(self, run, oracle, feats=None, what=""):
        bad = self.changed()
        ok = True
        if bad is not None:
            a, snap = self.items[bad]
            run.fail(oracle, dict(feats or {}), "an array returned by an earlier call (%s, shape %r) was changed by a later "
                     "call of the library while the caller was still holding it%s" % (a.dtype, a.shape, (": " + what) if what else ""))
            ok = False
        n = 0
        for a, _snap in self.items:
            n += scribble(a)
        if n:
            run.fault("caller_edited_a_result_in_place")
        del self.items[:]
        return ok

