"""
Per-property check specifications: which engine parts run, how many runs per tier, what
counts as a distinct non-trivial case, what is real and what is a stub.
"""

SPECS = {}

SPECS["C17"] = {
    "parts": [{"engine": "quadsim", "mode": "", "quick": 40000, "thorough": 2500000}],
    "cap_quick": 150, "cap_thorough": 3000,
    "rule": ("one run = one seeded call history (2-12 operations: function / tabulated-data / 2-d "
             "integrals with changing, repeated or omitted npts, direct rule and polynomial-exactness "
             "requests, integrands that raise half-way, rejected npts<=0 and bad ranges) on ONE "
             "QGauss (+ optional QGauss2) object; a run is non-trivial when the live object saw a "
             "changed point count or was used again after an aborted/rejected call; distinct = "
             "distinct event-log digests among the non-trivial runs"),
    "state_measure": ("state = (class of cached npts, outcome of previous call, constructor had npts); "
                      "transition = (state, call kind, npts relation same/different/omitted/invalid)"),
    "real": ["esutil.integrate QGauss/QGauss2/qgauss/gauleg (Python and _cgauleg C)", "esutil.stat.interplin"],
    "stub": [],
    "assumptions": ["numpy.polynomial.legendre.leggauss and numpy.interp are correct (reference rule and "
                    "interpolant)", "integrands are smooth functions of the normalised coordinate (Lipschitz "
                    "O(10)); tabulated x strictly increasing"],
}
