"""
Per-property check specifications: which engine parts run, how many runs per tier, what
counts as a distinct non-trivial case, what is real and what is a stub.
"""

SPECS = {}

SPECS["C17"] = {
    "parts": [{"engine": "quadsim", "mode": "", "quick": 40000, "thorough": 2500000}],
    "cap_quick": 150, "cap_thorough": 3000,
    "rule": ("one run = one seeded call history (2-12 operations: function / tabulated-data / 2-d "
             "integrals with changing, repeated or omitted npts, direct rule and polynomial-exactness "
             "requests, integrands that raise half-way or re-enter the same object, rejected npts<=0 / float npts and bad ranges, "
             "sibling tables of equal length and end points) on ONE "
             "QGauss (+ optional QGauss2) object; a run is non-trivial when the live object saw a "
             "changed point count or was used again after an aborted/rejected call; distinct = "
             "distinct event-log digests among the non-trivial runs"),
    "state_measure": ("state = (class of cached npts, outcome of previous call, constructor had npts); "
                      "transition = (state, call kind, npts relation same/different/omitted/invalid)"),
    "real": ["esutil.integrate QGauss/QGauss2/qgauss/gauleg (Python and _cgauleg C)", "esutil.stat.interplin"],
    "stub": [],
    "expect_reach": ["abscissae_and_ordinates_are_big_endian_table_columns", "integration_ranges_are_arrays_refilled_in_place", "point_count_given_as_a_numpy_integer", "two_dimensional_integrand_relies_on_full_grids", "object_ran_its_own_demonstration", "integrand_returns_an_array_it_keeps", "memoised_integrand_values_handed_out_again", "npts_changed_on_live_object", "call_after_aborted_call", "integrand_raised",
                     "bad_npts_rejected", "bad_range_rejected", "sibling_table_same_length_and_end_points",
                     "integrand_reenters_the_same_object", "interval_end_points_of_type_float32",
                     "caller_edited_a_result_in_place"],
    "manifest": {
        "design_ref": "3.4",
        "level_text": ("seeded search over call histories (changing/repeated/omitted point counts, integrands "
                       "that raise half-way, rejected requests) on one reused integrator object; every valid "
                       "call is judged against an independent Gauss-Legendre rule and against a fresh object "
                       "(bit equality). Sampling, not proof."),
        "level_note": ("trusts numpy leggauss (n<=48) / own Newton reference validated against it, numpy.interp; "
                       "integrands are smooth in the normalised coordinate; bounds: <=12 calls per history, "
                       "npts<=2000"),
        "technique": ("deterministic simulation: seeded call-history search on a stateful object with injected "
                      "aborted calls; per-step refinement against a reference model"),
    },
    "assumptions": ["numpy.polynomial.legendre.leggauss and numpy.interp are correct (reference rule and "
                    "interpolant)", "integrands are smooth functions of the normalised coordinate (Lipschitz "
                    "O(10)); tabulated x strictly increasing"],
}

SPECS["C20"] = {
    "parts": [
        {"engine": "progsim", "mode": "wrap", "quick": 60000, "thorough": 4000000},
        {"engine": "progsim", "mode": "pool", "quick": 5000, "thorough": 150000, "batch": 25},
        {"engine": "progsim", "mode": "pure", "quick": 3201, "thorough": 300201},
    ],
    "cap_quick": 100, "cap_thorough": 3000,
    "rule": ("wrap: one run = one progress wrapper (pbar/PBar/prange/sbar, random option set) around an "
             "instrumented iterable, consumed next() by next() by a simulated consumer under a scripted "
             "clock (ticks, stalls, forward and backward jumps), optionally abandoned or with a source that "
             "raises; non-trivial when at least one item was delivered and a clock fault, length-less "
             "source, wrong total, failing source or abandonment was in play.  pool: one run = one pmap "
             "call on real forked workers whose completion order is fixed by a virtual-time pool model and "
             "enforced through per-item gates; non-trivial when completion order differs from submission "
             "order.  pure: run indices 0..200 are the exhaustive sweep isplit(num, 1..60) for num = index (the 200x60 sweep "
             "of the quantifier); every further run samples 4-15 direct calls of quicksort / quicksort_keyvalue (ties, "
             "two-valued and constant keys, sorted, reversed, organ-pipe, floats; arrays of five dtypes and lists, 0..400 "
             "items), splitarray and isplit with large arguments.  distinct = distinct event-log digests among non-trivial "
             "runs"),
    "state_measure": ("wrap: state = (entry/option class, source kind, items delivered bucket, clock regime), "
                      "transition = (state, pull|abandon); pool: state = (nproc, #chunks bucket, inversion "
                      "bucket of the completion order), transitions = distinct completion orders sigma"),
    "real": ["esutil.pbar (pbar/PBar/prange/sbar/pmap/format_meter)",
             "concurrent.futures.ProcessPoolExecutor with real forked worker processes, its queues and threads",
             "esutil.algorithm.quicksort/quicksort_keyvalue/isplit", "esutil.numpy_util.splitarray"],
    "stub": ["wall clock (SimClock installed as esutil.pbar.time and time.time)",
             "task latencies (virtual time; the resulting completion order is enforced on the real workers)",
             "the wrapped iterable and the consumer (instrumented)"],
    "expect_reach": ["loop_body_runs_a_progress_bar_of_its_own", "task_given_as_partial", "task_given_as_object", "range_with_start_or_step", "pmap_used_inside_a_running_pmap_call", "clock_back", "clock_jump", "clock_stall", "consumer_abandoned", "source_raised",
                     "lengthless_source", "wrong_total", "out_of_order_completion", "straggler", "exact_tie",
                     "more_workers_than_chunks", "empty_input", "chunk_larger_than_input", "single_worker",
                     "isplit_sweep_row", "sort_with_ties", "worker_process_killed", "task_raised",
                     "pmap_call_after_a_failed_one", "earlier_pmap_calls_in_the_same_process", "sort_failed_half_way",
                     "items_as_one_shot_iterable", "items_as_tuple"],
    "manifest": {
        "design_ref": "3.6",
        "level_text": ("seeded search over (a) option sets x instrumented iterables x scripted clocks (stalls, "
                       "forward/backward jumps) x consumer behaviour (abandon, failing source) for the progress "
                       "wrappers and (b) process schedules for pmap: the completion order of real forked workers "
                       "is decided by a virtual-time pool model and enforced through gates, then the result is "
                       "compared with list(map(fn, items)). Sampling, not proof."),
        "level_note": ("fork start method; FIFO dispatch model of ProcessPoolExecutor (a run that does not follow it "
                       "is inconclusive, not a violation); worker death not simulated; pure clauses (sorts, isplit, "
                       "splitarray) are enumerated/sampled directly (no simulation content) and inside pipelines"),
        "technique": ("deterministic simulation: simulated clock + scripted consumer/source faults; seeded schedule "
                      "search with enforced completion order on a real process pool"),
    },
    "assumptions": ["fork start method; worker death (BrokenProcessPool) not simulated",
                    "the pure clauses (sorts, isplit, splitarray) have no schedule, clock or fault: they are judged as stages of "
                    "simulated pipelines and, in the 'pure' part, by direct enumeration (isplit 0..200 x 1..60) and sampling -- "
                    "that part is input generation, not simulation, and is labelled so",
                    "a pool run whose real dispatch does not follow the FIFO model within the watchdog is "
                    "counted as inconclusive, never as a violation"],
}


_REC_REAL = ["esutil.sfile", "esutil.recfile (Python and _records C++)", "esutil.io front end", "glibc stdio",
             "kernel file system (scratch directory under /dev/shm or /var/tmp)"]
_REC_ASSUME = ["a working file system: no ENOSPC/EIO/torn writes are injected, because no given property says what "
               "must hold after them (DESIGN.md 1.2)",
               "tables are C-contiguous, packed dtypes; strided/byte-swapped presentations belong to C15"]
_REC_STATE = ("state = per path (form sfile/raw, binary/text, has user header, #chunks capped at 3, stale-before-create) "
              "and per handle (kind, mode, last outcome); transition = (state, op kind, entry point, outcome class)")


def _rec(prop, quick, thorough, rule, expect, level_text, note):
    return {
        "parts": [{"engine": "recsim", "mode": "", "quick": quick, "thorough": thorough}],
        "cap_quick": 150, "cap_thorough": 3000,
        "rule": rule, "state_measure": _REC_STATE, "real": _REC_REAL, "stub": [], "assumptions": _REC_ASSUME,
        "expect_reach": expect,
        "manifest": {"design_ref": "3.1", "level_text": level_text, "level_note": note,
                     "technique": ("deterministic simulation: seeded operation histories over record files on a scratch "
                                   "disk with environment perturbations (stale/other-form files, interleaved handles, "
                                   "object reuse, rejected requests); refinement of an in-memory table model plus an "
                                   "independent parse of the durable bytes after every step")},
    }


SPECS["C01"] = _rec(
    "C01", 25000, 2000000,
    ("one run = 1-3 interleaved logical callers, each creating binary record files (random packed dtype, values incl. "
     "NaN payloads/-0.0/extremes/embedded NULs, random header dict) through a random entry point and reading them back "
     "through several others; perturbations: stale bytes or a longer file of the other form already at the path, "
     "overwrite, a live reader object re-opened on another file, tables larger than the stdio buffer; one long-lived "
     "SFile/Recfile object per caller re-open()ed for every file it writes or reads; header dicts that were read from an "
     "earlier file (reserved keys included); every header dict handed back is edited in place by the caller; an eighth of "
     "the tables reach the file in 2-3 blocks through one writer object and 8% are taken up again through one r+ object that "
     "adds rows and reads them back itself, either of which may be released without close(); 4% of the "
     "tables are size coincidences (rows of 2**m bytes, 2**k rows, up to 64 KiB and rarely 16 MiB). Non-trivial = at "
     "least one perturbation fired; distinct = distinct event-log digests among those"),
    ["create_over_stale_bytes", "overwrite", "path_held_other_form", "object_reopened_on_other_file",
     "table_larger_than_stdio_buffer", "interleaved_callers", "nonzero_offset", "long_lived_object_reopened",
     "header_dict_read_from_an_earlier_file", "caller_edited_a_header_dict_it_was_handed",
     "caller_edited_a_result_in_place", "file_names_expanded_by_esutil_var", "file_names_expanded_by_esutil_home",
     "caller_refilled_its_work_buffer_after_a_write", "header_end_aligned_to_a_block_boundary",
     "replacement_with_same_size_and_time_stamp", "header_text_longer_than_a_megabyte", "writer_dropped_without_close", "several_writes_on_one_handle", "reopen_for_append", "working_directory_changed_while_objects_were_open", "caller_looked_at_an_open_object", "write_rejected_for_its_header_argument_then_repeated"],
    ("seeded search over dtypes x values x headers x entry points x prior path contents x caller interleavings; every read "
     "is compared bit-for-bit with the written table and the file's bytes are parsed independently after every write. "
     "Sampling, not proof."),
    "working file system; <=8 fields (rarely 30), <=64 rows (5% up to 6000), header nesting <=3; numpy is the reference for bytes")

SPECS["C04"] = _rec(
    "C04", 20000, 2000000,
    ("as C01 for delimited text (delimiters , : tab space ; |), integer/float/byte-string fields in either byte order; the "
     "text is additionally tokenised by an independent parser; a quarter of the tables reach the file in 2-3 blocks through "
     "one writer handle (later blocks in either byte order), a fifth get an append by reopening, 15% are taken up again "
     "through one r+ object that adds rows and reads them back itself; writer objects may be released without close(); "
     "size coincidences are "
     "rows of 2**m characters. Non-trivial = at least one perturbation fired"),
    ["create_over_stale_bytes", "overwrite", "path_held_other_form", "object_reopened_on_other_file",
     "table_larger_than_stdio_buffer", "interleaved_callers", "long_lived_object_reopened",
     "header_dict_read_from_an_earlier_file", "several_writes_on_one_handle", "reopen_for_append",
     "caller_edited_a_result_in_place", "file_names_expanded_by_esutil_var",
     "caller_refilled_its_work_buffer_after_a_write", "header_end_aligned_to_a_block_boundary",
     "writer_dropped_without_close", "working_directory_changed_while_objects_were_open", "caller_looked_at_an_open_object", "write_rejected_for_its_header_argument_then_repeated"],
    ("seeded search as C01; values are compared exactly for integers and strings and to 16/7 significant digits for floats, "
     "NaN/inf preserved; independent tokenisation of the file's text. Sampling, not proof."),
    "working file system; magnitudes within 1e-14 (f8) / 1e-5 (f4) of the largest finite value are not generated (their "
    "16/7-digit decimal legitimately reads back as inf); strings are printable ASCII without newline characters")

SPECS["C02"] = _rec(
    "C02", 25000, 2000000,
    ("one run = 1-3 callers, each storing one or two tables (binary or text, sfile or raw), keeping 1-3 reader handles "
     "open and issuing 3-12 selections (scalar row, row lists with repeats/unsorted, slices with negative/out-of-range "
     "bounds and steps, column name/list in any order) through every access style, plus out-of-range row lists that "
     "must be rejected; the model is indexing of the fully-read table; half of the text tables carry strings with leading/"
     "embedded/trailing blanks and delimiter characters; size-coincidence tables with subsampling slices [s::step]; field "
     "names that differ only in case. Non-trivial = a previous read, a rejected request or a re-open preceded a judged "
     "read on the same handle"),
    ["binary_table_larger_than_2_GiB", "previous_read_on_same_handle", "read_after_rejected_request", "out_of_range_row_list",
     "object_reopened_on_other_file", "interleaved_callers", "nonzero_offset", "caller_edited_a_result_in_place", "working_directory_changed_while_objects_were_open", "caller_looked_at_an_open_object"],
    ("seeded search over selections x access styles x handle histories (cursor left by the previous read, rejected "
     "requests, interleaved handles on one file); every result is compared bit-for-bit with numpy indexing of the table "
     "returned by a full read. Sampling, not proof."),
    "the model is esutil's own full read of the same file (full reads are C01/C04's subject); empty row lists and negative "
    "entries in row lists are left unconstrained")

SPECS["C03"] = _rec(
    "C03", 25000, 2000000,
    ("one run = 1-3 callers, each running a history of 3-12 operations over {create, open writer (w / r+), write again on "
     "the same handle, close, append by reopening (sfile.write/io.write append=True, SFile r+, Recfile r+), append to a "
     "missing path, incompatible append (35% offered a second time, the very same array), overwrite, read-back (also "
     "through the r+ handle), header} on one or two paths, binary and text; a fifth of the writer objects are released "
     "without close(); a fifth of the appends to an existing sfile pass a delim= keyword that differs from the file's "
     "(documented as ignored); long-lived re-open()ed objects; 3% of the "
     "paths use size-coincidence chunks (2**k rows of 2**m bytes, rarely 16 MiB). Non-trivial = at least one "
     "perturbation fired"),
    ["append_to_missing_file", "reopen_for_append", "incompatible_append", "several_writes_on_one_handle",
     "close_after_writes", "overwrite", "create_over_stale_bytes", "interleaved_callers",
     "chunk_handed_over_as_2d_array", "file_names_expanded_by_esutil_home", "caller_edited_a_result_in_place",
     "file_names_expanded_by_esutil_mixed", "empty_chunk_written_through_a_handle",
     "caller_refilled_its_work_buffer_after_a_write", "writer_dropped_without_close",
     "append_with_other_delim_keyword", "working_directory_changed_while_objects_were_open", "caller_looked_at_an_open_object", "write_rejected_for_its_header_argument_then_repeated"],
    ("seeded search over operation histories; the model is the list of accepted chunks; after every mutating step with no "
     "writer open the file's bytes are parsed independently (SIZE line, END, rows x itemsize bytes or rows lines) and "
     "every read-back is compared with the concatenation. Sampling, not proof."),
    "working file system; reads through a second handle while a writer is open are generated but not judged (stdio "
    "buffering makes them unspecified); raw Recfile files carry no dtype, so incompatible appends are only judged on sfiles")

SPECS["C19"] = {
    "parts": [{"engine": "rngsim", "mode": "", "quick": 40000, "thorough": 3000000}],
    "cap_quick": 150, "cap_thorough": 3000,
    "rule": ("one run = 1-3 requests (spherical cap, lon/lat box, tabulated/functional sampler, Cholesky sampler, index "
             "selection) served by a simulator-owned random source that records every deviate and, with a per-request "
             "rate, forces legal edge deviates (0, 2^-53, 1-2^-53, quarters, repeated values, exact cumulative-table "
             "values; for the samplers also 1.0, the closed end of the unit interval); densities with far tails (runs of equal "
             "cumulative values); covariances over 20 decades of scale and with axes scaled by up to 1e+-4.5; numpy's global "
             "generator is poisoned and must be found untouched; real RandomState/default_rng "
             "with equal seeds serve as control group. Non-trivial = at least one forced deviate or special path "
             "(forced rotation, zero-width box) was in play; distinct = distinct event-log digests among those"),
    "state_measure": ("state = (request kind, generator flavour, option class, edge deviates on/off); transitions = "
                      "distinct (state, request class) pairs (radius class, polar centre, zero width, ...)"),
    "real": ["esutil.coords.randsphere/randcap/rotate", "esutil.random.Generator/CholeskySampler/cholesky_sample/random_indices",
             "esutil.stat.interplin", "scipy.integrate.cumulative_trapezoid", "numpy.linalg.cholesky"],
    "stub": ["the random source (SimRNG, legacy and new-style duck types): every deviate is drawn, recorded and sometimes "
             "forced to an edge by the simulator"],
    "expect_reach": ["caller_refilled_mean_and_covariance_after_construction", "count_given_as_a_numpy_integer", "cap_centre_given_as_float32_scalars", "box_edge_exactly_zero", "index_range_beyond_4_byte_integers", "edge_value", "repeated_value", "target_value", "forced_rotation_path", "zero_width_box",
                     "closed_end_value", "deviate_exactly_one", "deviate_on_a_run_of_equal_cumulative_values",
                     "same_density_object_with_changed_parameters", "deviate_equal_to_a_tabulated_cumulative_value",
                     "sampler_object_drawn_from_again",
                     "caller_edited_a_result_in_place"],
    "assumptions": ["separations are judged with an atan2(|a x b|, a.b) reference in extended precision; 'inside' means "
                    "within 1e-9 deg plus the 1/cos(dec) conditioning of a latitude next to a pole",
                    "the accept/reject ('cut') sampler method is outside the statement and not exercised"],
    "manifest": {
        "design_ref": "3.5",
        "level_text": ("seeded search over requests x deviate sequences: the random source is owned by the simulator, so "
                       "region membership, returned radii, the deviate-to-value map of the samplers and mean + L z are "
                       "recomputed from the recorded deviates, including forced edge deviates a real generator returns "
                       "once in 2^53 draws. Sampling, not proof."),
        "level_note": ("trusts the extended-precision separation formula, numpy.interp and an own Cholesky factorisation"),
        "technique": ("deterministic simulation: the random source is replaced by a seeded, recording, edge-forcing "
                      "stub; oracles recomputed from the recorded deviates"),
    },
}

SPECS["C10"] = {
    "parts": [{"engine": "wcssim", "mode": "", "quick": 5000, "thorough": 250000}],
    "cap_quick": 150, "cap_thorough": 3000,
    "rule": ("one run = one random header (TAN, TPV incl. the old scamp RA---TAN spelling, TAN-SIP order 2-4; random CD "
             "rotation/flip/scale, reference point anywhere incl. poles and the RA seam, reference pixel inside or far "
             "outside the image, distortion of 0.1-30 pixel) and ONE WCS object on which 1-3 interleaved logical callers "
             "issue image2sky / round trips through sky2image(find, distort) / get_jacobian calls with scalar and array "
             "inputs; perturbations: calls that raise half-way through the vectorised root finder, non-finite inputs, sky "
             "positions far from the field, the lazy inverse fit arriving first/late/never, other WCS objects (another header of the "
             "same family, or the same header with another NAXIS) created and used while the object is alive. Non-trivial = at least one "
             "perturbation fired; distinct = distinct event-log digests among those"),
    "state_measure": ("state = (projection, inverse fit built?, outcome of last call, last input shape class); transition = "
                      "(state, call kind, flags)"),
    "real": ["esutil.wcsutil.WCS and helpers", "scipy.optimize.fsolve", "numpy.linalg"],
    "stub": [],
    "expect_reach": ["caller_looked_at_the_object", "aborted_call_asked_for_no_distortion", "interleaved_callers_on_one_object", "call_after_aborted_call", "call_aborted_half_way",
                     "scalar_array_alternation", "lazy_inverse_fit_built_late", "lazy_inverse_fit_built_first",
                     "non_finite_input", "sky_position_far_from_the_field", "another_wcs_object_created_and_used",
                     "request_buffers_refilled_in_place", "caller_edited_a_result_in_place", "pixel_positions_of_type_f4"],
    "assumptions": ["clean-room reference: pixel offset, CD matrix, TPV/SIP polynomial in the convention's order, t + xi*e + "
                    "eta*n normalised (extended precision)",
                    "crval2 = +90 exactly is only generated with an explicit LONPOLE=180 (the FITS default differs there)",
                    "for find=False the statement gives no number: judged against the fresh-object value and against "
                    "max(1e-3 px, min(half the error of ignoring the distortion, 50 x the error of an independently fitted inverse "
                    "polynomial of the same order at the same positions))",
                    "dict headers with lower-case keys; thread-level sharing of one object is not claimed by the property"],
    "manifest": {
        "design_ref": "3.2",
        "level_text": ("seeded search over headers x positions x call histories on one shared object: every result is compared "
                       "bit-for-bit with the same call on a fresh object (history independence), image2sky with a clean-room "
                       "FITS-WCS reference (1e-9 deg), round trips to 1e-6 pixel. Sampling, not proof."),
        "level_note": ("trusts the clean-room reference and scipy's fsolve; <=15 calls per history, <=16 points per call; "
                       "distortions of realistic magnitude (<=30 px, Jacobian within 5% of identity)"),
        "technique": ("deterministic simulation: seeded interleaving of callers on one stateful object with injected aborted "
                      "calls; fresh-object-per-call reference model + clean-room reference"),
    },
}

SPECS["C12"] = {
    "parts": [{"engine": "htmsim", "mode": "", "quick": 5000, "thorough": 300000}],
    "cap_quick": 150, "cap_thorough": 3000,
    "rule": ("one run = 1-3 long-lived Matcher objects (depth 1-13, point sets: uniform, caps of 1e-4..30 deg, around both "
             "poles, straddling ra=0/360, duplicates, self-match), each serving 2-6 match calls (scalar or per-point radius "
             "from 0 and 1e-6 to 180 deg, maxmatch in {-1,0,1,2,k,>group}) in memory or to a pair file that is read back, "
             "interleaved by a seeded schedule; perturbations: stale longer pair file at the output path, calls rejected for "
             "mismatched sizes or an unwritable path, reuse after rejection; cross checks against the one-shot HTM.match, "
             "another depth, and the same question asked twice; coordinate arrays byte-swapped/strided in 30% of the calls; "
             "long-lived one-shot HTM objects fed from caller buffers refilled in place, writing to the same file names; point "
             "sets on octant edges and with twin partners at about the search radius. Non-trivial = at least one perturbation "
             "fired"),
    "state_measure": ("state = per matcher (depth class, #calls capped at 3, last outcome); transition = (state, call, "
                      "maxmatch class, radius class, sink and whether the output path was occupied)"),
    "real": ["esutil.htm (Python, _htmc C++ and the HTM library)", "esutil.recfile via read_pairs", "glibc stdio",
             "kernel file system"],
    "stub": [],
    "expect_reach": ["oneshot_object_used_for_something_else_in_between", "earlier_pair_files_read_again", "coordinates_given_as_python_sequences", "radius_given_as_a_float32_scalar", "first_set_of_more_than_100000_points", "search_circle_covers_millions_of_leaves", "matcher_reused", "match_after_rejected_call", "stale_pair_file_at_output_path",
                     "interleaved_matchers", "rejected_call_size_mismatch", "rejected_call_unwritable",
                     "oneshot_compared", "second_depth_compared", "oneshot_object_reused",
                     "oneshot_buffer_refilled_in_place", "presented_swapped", "presented_strided",
                     "caller_edited_a_result_in_place"],
    "assumptions": ["brute-force separations: atan2(|a x b|, a.b) in extended precision", "pairs within 1e-9 deg of the "
                    "radius are not constrained (as the property states)",
                    "depth and radius are drawn jointly so that one circle covers at most ~2e4 leaf triangles (cost bound); "
                    "<=120 x 60 points; cylmatch and mutation of the caller's arrays after building a matcher are not covered"],
    "manifest": {
        "design_ref": "3.3",
        "level_text": ("seeded search over point configurations x radii x depths x call histories on reusable matcher objects and "
                       "pair files; every call is compared with brute-force enumeration (none missing, none extra, each once, "
                       "grouping, order, separations, maxmatch), file == memory, matcher == one-shot, depth independence. "
                       "Sampling, not proof."),
        "level_note": ("trusts the extended-precision brute force; cost bound couples depth and radius; working file system"),
        "technique": ("deterministic simulation: seeded interleaving of calls on long-lived matcher objects with injected "
                      "rejected calls and stale output files; brute-force reference per call"),
    },
}

SPECS["C15"] = {
    "parts": [
        {"engine": "recsim", "mode": "", "quick": 6000, "thorough": 600000},
        {"engine": "htmsim", "mode": "", "quick": 1200, "thorough": 60000},
        {"engine": "wcssim", "mode": "", "quick": 1200, "thorough": 60000},
        {"engine": "rngsim", "mode": "", "quick": 6000, "thorough": 500000},
        {"engine": "quadsim", "mode": "", "quick": 6000, "thorough": 500000},
        {"engine": "ownsim", "mode": "", "quick": 30000, "thorough": 3000000},
    ],
    "cap_quick": 60, "cap_thorough": 1200,
    "rule": ("(a) the workloads of the other engines (record-file writers binary/text through every entry point and through "
             "appends, Matcher construction and matching, WCS conversions, tabulated densities/covariances/means of the "
             "samplers, tabulated quadrature data) with the PRESENTATION of every array argument drawn per call: fresh "
             "contiguous copy, the other declared byte order, strided or offset view into a larger buffer whose gaps hold "
             "canaries, float32/integer where conversion is documented; after every call the whole base buffer, dtype, "
             "strides and flags are compared with the snapshot taken before.  (b) caller sessions (ownsim): a pool of "
             "caller-owned arrays (coordinates, data, weights, redshifts, integer/string keys, structured tables, covariance "
             "matrices; presentations as above plus 0-d and Fortran order) is handed to a seeded sequence of 2-10 calls into "
             "the families the statement lists (field operations, byte-order helpers with inplace off, match/unique/rem_dup, "
             "histogram/histogram2d/Binner with weights, wmom/wmedian/sigma_clip/get_stats/interplin/cov2cor/cor2cov, the "
             "coordinate conversions, Cosmo distances with scalar/array bounds, HTM lookup_id/match/bincount/cylmatch) with "
             "options drawn per call; after every call EVERY pool array is compared with its snapshot, not only the arguments "
             "of that call.  Only the ownership oracle is enabled; an exception is an outcome.  Non-trivial = a guarded call "
             "was made; distinct = distinct event-log digests among those"),
    "state_measure": ("union of the abstract states/transitions of the contributing engines (prefixed by engine name); ownsim: "
                      "state = (family, pool size capped at 4), transition = (state, call site, presentation of each argument)"),
    "real": ["esutil.sfile/recfile/io writers", "esutil.htm Matcher/HTM", "esutil.wcsutil.WCS", "esutil.random samplers",
             "esutil.integrate (tabulated data)", "esutil.numpy_util", "esutil.stat (Python and _chist C)", "esutil.coords",
             "esutil.cosmology (Python and _cosmolib C)"],
    "stub": ["random source of the samplers (SimRNG)"],
    "expect_reach": ["guarded_fieldview", "guarded_plain", "guarded_swapped", "guarded_strided", "guarded_strided_swapped", "guarded_offset",
                     "guarded_f4", "guarded_int", "guarded_zerod", "guarded_fortran", "array_reused_by_a_later_call",
                     "call_raised", "family_fields", "family_byteorder", "family_match", "family_hist", "family_stat",
                     "family_coords", "family_cosmology", "family_htm", "arguments_passed_as_temporaries", "write_rejected_with_guarded_table",
                     "write_through_read_only_object", "special_values_in_a_caller_array", "writer_option_padnull"],
    "assumptions": ["for the pure families (field operations, byte-order helpers, match/unique, histograms, statistics, "
                    "coordinates, cosmology, HTM lookup/pair counting) the per-call part of a session is generated inputs, not "
                    "fault simulation: there is no schedule, clock or fault to vary; what the session adds is the monitor on the "
                    "whole pool over a call history (DESIGN.md 3.7)",
                    "functions documented as in-place (inplace=True variants, copy_fields' destination, copy_fields_by_name, "
                    "atbound, the in-place sorts) are not called on pool arrays",
                    "results of writes from strided presentations are not judged (layout is outside C01-C04's quantifiers)"],
    "manifest": {
        "design_ref": "3.7",
        "level_text": ("a byte/dtype/stride/flag snapshot monitor on every array handed to esutil (a) inside the simulated "
                       "workloads of the other engines and (b) in seeded caller sessions over the function families the "
                       "statement lists, with the argument's presentation (byte order, strides, element type, 0-d, Fortran "
                       "order) and the options drawn per call; the whole pool of caller arrays is re-checked after every call. "
                       "Sampling, not proof."),
        "level_note": ("covers writers (binary/text, create/append/handle), htm Matcher/match/HTM.match/lookup_id/bincount/"
                       "cylmatch, WCS image2sky/sky2image/get_jacobian, samplers, quadrature data, numpy_util field/byte-order/"
                       "match helpers, stat histogram/Binner/moments/clipping/interpolation, coords conversions, Cosmo distances; "
                       "does not cover plotting, fits/hdfs/sqlite/oracle wrappers, json/xml tools, ArrayWriter"),
        "technique": ("deterministic simulation workloads and seeded caller sessions used as carriers for a caller-owned-memory "
                      "monitor (snapshot of the whole pool before/after each call, canary gaps)"),
    },
}
