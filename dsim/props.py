"""
Per-property check specifications: which engine parts run, how many runs per tier, what
counts as a distinct non-trivial case, what is real and what is a stub.
"""

SPECS = {}

SPECS["C17"] = {
    "parts": [{"engine": "quadsim", "mode": "", "quick": 40000, "thorough": 2500000}],
    "cap_quick": 150, "cap_thorough": 3000,
    "rule": ("one run = one seeded call history (2-12 operations: function / tabulated-data / 2-d "
             "integrals with changing, repeated or omitted npts, direct rule and polynomial-exactness "
             "requests, integrands that raise half-way, rejected npts<=0 and bad ranges) on ONE "
             "QGauss (+ optional QGauss2) object; a run is non-trivial when the live object saw a "
             "changed point count or was used again after an aborted/rejected call; distinct = "
             "distinct event-log digests among the non-trivial runs"),
    "state_measure": ("state = (class of cached npts, outcome of previous call, constructor had npts); "
                      "transition = (state, call kind, npts relation same/different/omitted/invalid)"),
    "real": ["esutil.integrate QGauss/QGauss2/qgauss/gauleg (Python and _cgauleg C)", "esutil.stat.interplin"],
    "stub": [],
    "expect_reach": ["npts_changed_on_live_object", "call_after_aborted_call", "integrand_raised",
                     "bad_npts_rejected", "bad_range_rejected"],
    "manifest": {
        "design_ref": "3.4",
        "level_text": ("seeded search over call histories (changing/repeated/omitted point counts, integrands "
                       "that raise half-way, rejected requests) on one reused integrator object; every valid "
                       "call is judged against an independent Gauss-Legendre rule and against a fresh object "
                       "(bit equality). Sampling, not proof."),
        "level_note": ("trusts numpy leggauss (n<=48) / own Newton reference validated against it, numpy.interp; "
                       "integrands are smooth in the normalised coordinate; bounds: <=12 calls per history, "
                       "npts<=2000"),
        "technique": ("deterministic simulation: seeded call-history search on a stateful object with injected "
                      "aborted calls; per-step refinement against a reference model"),
    },
    "assumptions": ["numpy.polynomial.legendre.leggauss and numpy.interp are correct (reference rule and "
                    "interpolant)", "integrands are smooth functions of the normalised coordinate (Lipschitz "
                    "O(10)); tabulated x strictly increasing"],
}

SPECS["C20"] = {
    "parts": [
        {"engine": "progsim", "mode": "wrap", "quick": 60000, "thorough": 4000000},
        {"engine": "progsim", "mode": "pool", "quick": 5000, "thorough": 150000, "batch": 25},
    ],
    "cap_quick": 100, "cap_thorough": 3000,
    "rule": ("wrap: one run = one progress wrapper (pbar/PBar/prange/sbar, random option set) around an "
             "instrumented iterable, consumed next() by next() by a simulated consumer under a scripted "
             "clock (ticks, stalls, forward and backward jumps), optionally abandoned or with a source that "
             "raises; non-trivial when at least one item was delivered and a clock fault, length-less "
             "source, wrong total, failing source or abandonment was in play.  pool: one run = one pmap "
             "call on real forked workers whose completion order is fixed by a virtual-time pool model and "
             "enforced through per-item gates; non-trivial when completion order differs from submission "
             "order.  distinct = distinct event-log digests among non-trivial runs"),
    "state_measure": ("wrap: state = (entry/option class, source kind, items delivered bucket, clock regime), "
                      "transition = (state, pull|abandon); pool: state = (nproc, #chunks bucket, inversion "
                      "bucket of the completion order), transitions = distinct completion orders sigma"),
    "real": ["esutil.pbar (pbar/PBar/prange/sbar/pmap/format_meter)",
             "concurrent.futures.ProcessPoolExecutor with real forked worker processes, its queues and threads",
             "esutil.algorithm.quicksort/quicksort_keyvalue/isplit", "esutil.numpy_util.splitarray"],
    "stub": ["wall clock (SimClock installed as esutil.pbar.time and time.time)",
             "task latencies (virtual time; the resulting completion order is enforced on the real workers)",
             "the wrapped iterable and the consumer (instrumented)"],
    "expect_reach": ["clock_back", "clock_jump", "clock_stall", "consumer_abandoned", "source_raised",
                     "lengthless_source", "wrong_total", "out_of_order_completion", "straggler", "exact_tie",
                     "more_workers_than_chunks", "empty_input", "chunk_larger_than_input", "single_worker"],
    "manifest": {
        "design_ref": "3.6",
        "level_text": ("seeded search over (a) option sets x instrumented iterables x scripted clocks (stalls, "
                       "forward/backward jumps) x consumer behaviour (abandon, failing source) for the progress "
                       "wrappers and (b) process schedules for pmap: the completion order of real forked workers "
                       "is decided by a virtual-time pool model and enforced through gates, then the result is "
                       "compared with list(map(fn, items)). Sampling, not proof."),
        "level_note": ("fork start method; FIFO dispatch model of ProcessPoolExecutor (a run that does not follow it "
                       "is inconclusive, not a violation); worker death not simulated; pure clauses (sorts, isplit, "
                       "splitarray) only sampled inside pipelines"),
        "technique": ("deterministic simulation: simulated clock + scripted consumer/source faults; seeded schedule "
                      "search with enforced completion order on a real process pool"),
    },
    "assumptions": ["fork start method; worker death (BrokenProcessPool) not simulated",
                    "pure clauses (sorts, isplit, splitarray) are only sampled as stages of simulated pipelines, "
                    "the exhaustive 200x60 sweep is not performed",
                    "a pool run whose real dispatch does not follow the FIFO model within the watchdog is "
                    "counted as inconclusive, never as a violation"],
}
