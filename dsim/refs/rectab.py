"""
Reference side of the record-file engine: table and header generators (by recipe, so that
scripts stay small and shrinkable), comparators, and an independent parser of the durable
bytes of .rec files (never esutil's).
"""
import math
import pprint
import re

import numpy as np

from ..kernel import chance, pick, wpick

BIN_TYPES = ["i1", "u1", "i2", "u2", "i4", "u4", "i8", "u8", "f4", "f8", "b1", "c8", "c16", "S"]
TXT_TYPES = ["i1", "u1", "i2", "u2", "i4", "u4", "i8", "u8", "f4", "f8", "S"]
NAME_POOL = ["x", "y", "ra", "dec", "flux", "id", "name", "BLEND", "END", "ENDING", "SIZE", "_under", "__dunder",
             "f0", "col_3", "mag_auto", "SENDER", "aEND", "END_", "Weight", "nrows", "delim", "dtype", "size",
             "a", "b", "c", "k9", "very_long_field_name_number_one", "T"]
UNI_NAMES = ["größe", "naïve", "λ", "données"]


# --------------------------------------------------------------------------- recipes

def draw_fields(r, form, nmax=8, simple=False, allow_mixed=True):
    """form: 'bin' or 'txt'.  Returns a list of field recipes."""
    types = BIN_TYPES if form == "bin" else TXT_TYPES
    nf = wpick(r, [(1, 2), (2, 3), (3, 3), (r.randrange(4, nmax + 1), 3), (30, 0.1 if not simple else 0)])
    order = pick(r, ["<", ">"])
    mixed = allow_mixed and chance(r, 0.12)
    names = []
    pool = list(NAME_POOL)
    out = []
    for i in range(nf):
        if pool and chance(r, 0.8):
            nm = pool.pop(r.randrange(len(pool)))
        elif chance(r, 0.1) and not simple:
            nm = pick(r, UNI_NAMES) + str(i)
        else:
            nm = "f%d" % i
        if names and chance(r, 0.06) and not simple:
            # a name that differs from an earlier one only in the case of its letters (z / Z): distinct fields
            alt = names[r.randrange(len(names))].swapcase()
            if alt not in names:
                nm = alt
        if nm in names:
            nm = nm + "_%d" % i
        names.append(nm)
        t = pick(r, types)
        if t == "S":
            t = "S%d" % r.randrange(1, 13)
        sk = wpick(r, [("s", 6), ("1", 2), ("2", 1.2), ("3", 0.6 if form == "bin" else 0)])
        if sk == "s":
            shape = []
        elif sk == "1":
            shape = [r.randrange(1, 5)]
        elif sk == "2":
            shape = [r.randrange(1, 4), r.randrange(1, 4)]
        else:
            shape = [r.randrange(1, 3), r.randrange(1, 3), r.randrange(1, 3)]
        o = order
        if mixed and chance(r, 0.5):
            o = "<" if order == ">" else ">"
        prof = "simple" if simple else wpick(r, [("edge", 3), ("wide", 3), ("simple", 1)])
        out.append({"n": nm, "t": t, "s": shape, "o": o, "p": prof})
    return out


def draw_fields_pow2(r, form):
    """Fields whose row is exactly 2**m bytes (binary) or 2**m characters incl. delimiters and newline (text:
    byte strings only, they are fixed width), for tables whose data region is an exact multiple of the usual
    block and buffer sizes."""
    order = pick(r, ["<", ">"])
    if form == "bin":
        sets = [["i8"], ["f8"], ["i4", "f4"], ["i8", "f8"], ["i4", "i4", "f8"], ["i8", "f8", "S16"], ["u2", "i2", "f4"],
                ["i8", "i8", "f8", "f8"], ["f8", "S8", "i4", "u4", "i8"]]
        ts = pick(r, sets)
        return [{"n": "p%d" % i, "t": t, "s": [], "o": order, "p": pick(r, ["edge", "wide", "simple"])} for i, t in enumerate(ts)]
    m = pick(r, [3, 4, 5, 6])
    nf = pick(r, [1, 2, 3]) if m > 3 else pick(r, [1, 2])
    total = 2 ** m - nf                 # characters left for the strings: nf-1 delimiters and the newline are the rest
    ws = []
    for i in range(nf - 1):
        w = r.randrange(1, max(2, min(12, total - (nf - 1 - i)) + 1))
        ws.append(w)
        total -= w
    ws.append(total)
    if any(w < 1 or w > 60 for w in ws):
        ws = [2 ** m - 1]
    return [{"n": "s%d" % i, "t": "S%d" % w, "s": [], "o": order, "p": "simple"} for i, w in enumerate(ws)]


def recipe_dtype(fields, native=False):
    lst = []
    for f in fields:
        t = f["t"]
        if t[0] == "S" or t in ("i1", "u1", "b1"):
            ts = "|" + t
        else:
            ts = ("=" if native else f["o"]) + t
        if f["s"]:
            lst.append((f["n"], ts, tuple(f["s"])))
        else:
            lst.append((f["n"], ts))
    return np.dtype(lst)


_EDGE_F8 = np.array([0.0, -0.0, np.inf, -np.inf, np.nan, 5e-324, -5e-324, 2.2250738585072014e-308,
                     1.0, -1.0, 0.1, 1.0 / 3.0, 123456789.12345678, 9007199254740993.0, 1e-300, -1e300,
                     1.7976931348623e+308, 4.9406564584124654e-320, 0.30000000000000004, 2.5e-16], dtype="f8")
_EDGE_F4 = np.array([0.0, -0.0, np.inf, -np.inf, np.nan, 1e-45, -1e-45, 1.17549435e-38, 1.0, -1.0, 0.1,
                     1.0 / 3.0, 16777217.0, 3.4028e38, -3.4028e38, 1e-30, 123456.7], dtype="f4")
ALNUM = np.frombuffer(b"abcdefghijklmnopqrstuvwxyzABCDEFGHIJKLMNOPQRSTUVWXYZ0123456789", dtype="u1")


def _vals(g, t, n, prof, form, delim):
    """n flat elements of base type t (native order)."""
    if t == "b1":
        return g.integers(0, 2, n).astype("b1")
    if t[0] in "iu":
        info = np.iinfo(t)
        if prof == "simple":
            lo, hi = max(info.min, -1000), min(info.max, 1000)
            return g.integers(lo, hi + 1, n).astype(t)
        v = g.integers(info.min, info.max, n, dtype=t, endpoint=True)
        if prof == "edge":
            edges = np.array([info.min, info.max, 0, 1, info.max - 1, info.min + 1, 10, 99], dtype=t)
            m = g.random(n) < 0.6
            v[m] = edges[g.integers(0, edges.size, int(m.sum()))]
        return v
    if t in ("f8", "f4"):
        if prof == "simple":
            return np.round(g.uniform(-1000, 1000, n), 2).astype(t)
        if t == "f8":
            mant = g.uniform(1, 10, n)
            ex = g.integers(-300, 300, n)
            v = mant * 10.0 ** ex * np.where(g.random(n) < 0.5, 1, -1)
            edges = _EDGE_F8
        else:
            mant = g.uniform(1, 10, n)
            ex = g.integers(-37, 38, n)
            with np.errstate(over="ignore"):
                v = (mant * 10.0 ** ex * np.where(g.random(n) < 0.5, 1, -1)).astype("f4")
            v[~np.isfinite(v)] = 1.5
            edges = _EDGE_F4
        v = v.astype(t)
        if prof == "edge":
            m = g.random(n) < 0.6
            v[m] = edges[g.integers(0, edges.size, int(m.sum()))]
            if form == "bin":
                # NaN payloads and signs
                k = g.random(n) < 0.1
                if t == "f8":
                    bits = (np.uint64(0x7FF0000000000000) | g.integers(1, 1 << 52, n, dtype="u8") |
                            (g.integers(0, 2, n, dtype="u8") << np.uint64(63)))
                    v[k] = bits.view("f8")[k]
                else:
                    bits = (np.uint32(0x7F800000) | g.integers(1, 1 << 23, n, dtype="u4") |
                            (g.integers(0, 2, n, dtype="u4") << np.uint32(31)))
                    v[k] = bits.view("f4")[k]
        return v
    if t in ("c8", "c16"):
        ft = "f4" if t == "c8" else "f8"
        re_ = _vals(g, ft, n, prof, form, delim)
        im_ = _vals(g, ft, n, prof, form, delim)
        out = np.empty(n, dtype=t)
        out.real = re_
        out.imag = im_
        return out
    if t[0] == "S":
        w = int(t[1:])
        if prof == "simple":
            raw = ALNUM[g.integers(0, ALNUM.size, (n, w))]
            ln = g.integers(1, w + 1, n)
        elif form == "bin":
            raw = g.integers(0, 256, (n, w), dtype="u1")
            z = g.random((n, w)) < 0.25
            raw[z] = 0
            ln = g.integers(0, w + 1, n)
            ln[g.random(n) < 0.5] = w
        else:
            raw = g.integers(0x21, 0x7F, (n, w), dtype="u1")
            sp = g.random((n, w)) < 0.25
            raw[sp] = 0x20
            if delim and delim not in (" ",):
                dl = g.random((n, w)) < 0.12
                raw[dl] = ord(delim)
            if delim == "\t":
                pass
            if g.random() < 0.15:
                # ASCII is more than the printable characters: NULs in the middle of a value, control characters (no
                # line breaks: LF, CR, VT, FF stay out)
                cz = g.random((n, w)) < 0.15
                raw[cz] = np.array([0, 0, 0, 1, 7, 8, 0x1B, 0x1F, 0x7F], dtype="u1")[g.integers(0, 9, int(cz.sum()))]
            ln = g.integers(0, w + 1, n)
            ln[g.random(n) < 0.5] = w
        col = np.arange(w)[None, :]
        raw = np.where(col < ln[:, None], raw, 0).astype("u1")
        return np.ascontiguousarray(raw).view("S%d" % w).reshape(n)
    raise ValueError(t)


def make_table(fields, nrows, dseed, form="bin", delim=None):
    dt = recipe_dtype(fields)
    arr = np.zeros(nrows, dtype=dt)
    for i, f in enumerate(fields):
        g = np.random.Generator(np.random.PCG64([dseed, i, 7]))
        nel = int(np.prod(f["s"])) if f["s"] else 1
        v = _vals(g, f["t"], nrows * nel, f.get("p", "simple"), form, delim)
        if form == "txt" and f["t"] in ("f8", "f4") and f.get("p") != "simple":
            # 16/7-digit decimals of values next to the largest finite value read back as inf
            lim = np.finfo(f["t"]).max * (1 - (1e-14 if f["t"] == "f8" else 1e-5))
            with np.errstate(invalid="ignore"):
                big = np.isfinite(v) & (np.abs(v) > lim)
            v[big] = 1.0
        arr[f["n"]] = v.reshape((nrows,) + tuple(f["s"]))
    return arr


def zeros_like_recipe(fields, nrows):
    return np.zeros(nrows, dtype=recipe_dtype(fields))


# --------------------------------------------------------------------------- headers

_STR_PIECES = ["", "abc", "it's", 'say "hi"', "line1\nline2", "THE END", "END", "SIZE = 3", "tab\there",
               "back\\slash", "END\n", "\nEND\n", "{'a': 1}", "trailing space ", "#comment", "%s %d",
               "'''", '"""', "\\n", "a" * 70, "word " * 30, "SIZE =                   10", "\r\n",
               # text that looks like literals of other dialects (python 2 longs, octal, u'' prefixes, numpy reprs)
               "bottle of 2L", "100L", "0x1fL 7l", "u'abc'", "0777", "1e5L", "array([1, 2])", "nan", "inf", "True", "None",
               "b'12L'", "1_000", "0o17 0b1"]
_KEYS = ["date", "age", "END", "SIZE", "note", "survey", "n rows", "it's", "Key", "size", "nrows", "delim",
         "dtype", "BLEND", "x", "long_key_name_to_force_wrapping_of_the_pretty_printer", "k2", "version",
         " lead", "trail ", "", "new\nline", "quo'te", 'dq"', "tab\tkey", "Size", "THE END", "a.b", "1", "None",
         "run 7L", "42L", "u'k'", "nan"]


def gen_value(r, depth=0):
    k = wpick(r, [("int", 3), ("float", 3), ("str", 4), ("bytes", 1), ("none", 0.7), ("bool", 1),
                  ("list", 1.2 if depth < 3 else 0), ("tuple", 1 if depth < 3 else 0),
                  ("dict", 1 if depth < 3 else 0), ("ustr", 0.3)])
    if k == "int":
        return pick(r, [0, -1, 1, 2 ** 63, -2 ** 70, r.randrange(-10 ** 6, 10 ** 6), 10 ** 30])
    if k == "float":
        return pick(r, [0.0, -0.0, 1.5, 1e300, -2.5e-300, round(r.uniform(-1e6, 1e6), 3), 0.1 + 0.2,
                        1.7976931348623157e308, 5e-324, r.uniform(-1, 1)])
    if k == "str":
        s = pick(r, _STR_PIECES)
        if chance(r, 0.3):
            s = s + " " + pick(r, _STR_PIECES)
        return s
    if k == "ustr":
        return pick(r, ["größe", "données λ", "naïve END"])
    if k == "bytes":
        return pick(r, [b"", b"ab\x00c", b"END", b"\xff\xfe", b"it's", b"12L", b"0x1fL", b"50%"])
    if k == "none":
        return None
    if k == "bool":
        return chance(r, 0.5)
    if k == "list":
        return [gen_value(r, depth + 1) for _ in range(r.randrange(0, 5))]
    if k == "tuple":
        return tuple(gen_value(r, depth + 1) for _ in range(r.randrange(0, 4)))
    d = {}
    for _ in range(r.randrange(0, 4)):
        # a dict that is a VALUE of the header: its own keys are any hashable literals (flag numbers, tuples, ...)
        if chance(r, 0.35):
            key = pick(r, [1, 0, -3, 2 ** 40, (1, 2), ("a", 1), b"k", True, None, 2.5, (), "1"])
        else:
            key = pick(r, _KEYS)
        d[key] = gen_value(r, depth + 1)
    return d


def gen_header(r, simple=False):
    if simple:
        return {"date": "2007-05-12", "age": r.randrange(100)} if chance(r, 0.7) else None
    if chance(r, 0.25):
        return None
    d = {}
    for _ in range(wpick(r, [(1, 2), (r.randrange(2, 6), 3), (r.randrange(6, 13), 1), (0, 0.5)])):
        d[pick(r, _KEYS)] = gen_value(r, 0)
    return d


def header_equal(a, b):
    """== with type sensitivity for list/tuple/bytes/str/bool/None and float sign-insensitive."""
    if type(a) != type(b):
        if isinstance(a, (int, float)) and isinstance(b, (int, float)) and not isinstance(a, bool) \
                and not isinstance(b, bool):
            return a == b
        return False
    if isinstance(a, (list, tuple)):
        return len(a) == len(b) and all(header_equal(x, y) for x, y in zip(a, b))
    if isinstance(a, dict):
        return set(a.keys()) == set(b.keys()) and all(header_equal(a[k], b[k]) for k in a)
    return a == b


# --------------------------------------------------------------------------- comparators

def descr_of(dt):
    out = []
    for n in dt.names:
        f = dt.fields[n][0]
        if f.subdtype is not None:
            base, shp = f.subdtype
            out.append((n, base.str, tuple(shp)))
        else:
            out.append((n, f.str, ()))
    return out


def first_diff_cell(a, b):
    """(row, field) of the first differing cell by bytes, or None."""
    for n in a.dtype.names:
        x = np.ascontiguousarray(a[n])
        y = np.ascontiguousarray(b[n])
        if x.tobytes() != y.tobytes():
            xr = x.reshape(x.shape[0], -1).view("u1").reshape(x.shape[0], -1)
            yr = y.reshape(y.shape[0], -1).view("u1").reshape(y.shape[0], -1)
            w = np.nonzero(np.any(xr != yr, axis=1))[0]
            i = int(w[0]) if w.size else 0
            return i, n, a[n][i], b[n][i]
    return None


def exact_table_diff(got, exp):
    """None if `got` has the same names, per-field types, shapes, byte order and bytes as `exp`."""
    if not isinstance(got, np.ndarray):
        return "result is %r, not an array" % type(got)
    if got.dtype.names is None:
        return "result has no fields (dtype %s)" % got.dtype
    if descr_of(got.dtype) != descr_of(exp.dtype):
        return "dtype differs: got %r expected %r" % (descr_of(got.dtype), descr_of(exp.dtype))
    if got.shape != exp.shape:
        return "shape differs: got %r expected %r" % (got.shape, exp.shape)
    if got.dtype.itemsize != exp.dtype.itemsize:
        return "itemsize differs: got %d expected %d (padding?)" % (got.dtype.itemsize, exp.dtype.itemsize)
    if np.ascontiguousarray(got).tobytes() != np.ascontiguousarray(exp).tobytes():
        d = first_diff_cell(got, exp)
        if d is None:
            return "bytes differ"
        return "row %d field %r: got %r expected %r" % d
    return None


def plain_equal_diff(got, exp):
    """for plain (non-structured) column arrays: dtype, shape, bytes."""
    if not isinstance(got, np.ndarray):
        return "result is %r, not an array" % type(got)
    if got.dtype != exp.dtype or got.dtype.str != exp.dtype.str:
        return "dtype differs: got %s expected %s" % (got.dtype.str, exp.dtype.str)
    if got.shape != exp.shape:
        return "shape differs: got %r expected %r" % (got.shape, exp.shape)
    if np.ascontiguousarray(got).tobytes() != np.ascontiguousarray(exp).tobytes():
        return "values differ"
    return None


F8_REL, F4_REL = 1e-15, 1e-6


def float_close(got, exp, t):
    """elementwise: text round trip tolerance for base float type t ('f8'/'f4')."""
    got = np.asarray(got, dtype="f8")
    exp = np.asarray(exp, dtype="f8")
    rel = F8_REL if t == "f8" else F4_REL
    floor = 5e-324 if t == "f8" else 1.5e-45
    with np.errstate(invalid="ignore", over="ignore"):
        both_nan = np.isnan(got) & np.isnan(exp)
        inf = np.isinf(exp) | np.isinf(got)
        ok_inf = inf & (got == exp)
        ok_fin = (~inf) & (np.abs(got - exp) <= rel * np.abs(exp) + floor)
    return both_nan | ok_inf | ok_fin


def text_table_diff(got, exp):
    """`exp` is the written table (any byte order).  None if `got` is its text round trip."""
    if not isinstance(got, np.ndarray):
        return "result is %r, not an array" % type(got)
    if got.dtype.names is None:
        return "result has no fields"
    dg, de = descr_of(got.dtype), descr_of(exp.dtype)
    if [d[0] for d in dg] != [d[0] for d in de]:
        return "field names differ: got %r expected %r" % ([d[0] for d in dg], [d[0] for d in de])
    for (n, ts, shp), (_, te, she) in zip(dg, de):
        if ts[1:] != te[1:] or shp != she:
            return "field %r: got type %s%r expected %s%r" % (n, ts, shp, te, she)
        if ts[0] not in "|=" and ts[0] != ("<" if np.little_endian else ">"):
            return "field %r is not in native byte order (%s)" % (n, ts)
    if got.shape != exp.shape:
        return "row count differs: got %r expected %r" % (got.shape, exp.shape)
    for (n, ts, shp) in de:
        g = got[n]
        e = exp[n]
        base = ts[1:]
        if base in ("f8", "f4"):
            ok = float_close(g, e, base)
            if not np.all(ok):
                w = np.argwhere(~ok)[0]
                return "row %d field %r: got %r expected %r (beyond %s significant digits)" % (
                    int(w[0]), n, g[tuple(w)], e[tuple(w)], "16" if base == "f8" else "7")
        else:
            eq = (g == e)
            if not np.all(eq):
                w = np.argwhere(~np.asarray(eq))[0]
                return "row %d field %r: got %r expected %r" % (int(w[0]), n, g[tuple(w)], e[tuple(w)])
    return None


def to_native(arr):
    dt = []
    for n, ts, shp in descr_of(arr.dtype):
        t = ts if ts[0] == "|" else "=" + ts[1:]
        dt.append((n, t, shp) if shp else (n, t))
    return arr.astype(np.dtype(dt))


# --------------------------------------------------------------------------- durable bytes

_SIZE_RE = re.compile(rb"^SIZE = ( *)(\d+)$")


def parse_sfile(raw):
    """Independent parse of an sfile's bytes.  Returns dict(size, hdrtext, data_start, data) or
    raises ValueError with the reason."""
    nl = raw.find(b"\n")
    if nl < 0:
        raise ValueError("no newline in file")
    m = _SIZE_RE.match(raw[:nl])
    if not m or len(raw[:nl]) != len("SIZE = ") + 20:
        raise ValueError("first line is not 'SIZE = %%20d': %r" % raw[:min(nl, 60)])
    size = int(m.group(2))
    endpos = raw.find(b"\nEND\n\n", nl)
    if endpos < 0:
        raise ValueError("no END line followed by a blank line")
    hdrtext = raw[nl + 1:endpos]
    data_start = endpos + len(b"\nEND\n\n")
    return {"size": size, "hdrtext": hdrtext, "data_start": data_start, "data": raw[data_start:]}


def eval_header(hdrtext):
    import ast
    return ast.literal_eval(hdrtext.decode("utf-8"))


def parse_text_rows(data, dt_native, delim, nrows_expected=None):
    """Independent tokenisation of delimited text: fixed-width byte strings, one delimiter
    character between elements and fields, one line per row.  Returns a native structured
    array; raises ValueError when the text does not have that shape."""
    d = ord(delim)
    fields = descr_of(dt_native)
    # total elements per row and which are strings
    plan = []
    for n, ts, shp in fields:
        nel = int(np.prod(shp)) if shp else 1
        base = ts[1:]
        for e in range(nel):
            plan.append((n, base, e))
    rows = []
    pos = 0
    L = len(data)
    while pos < L:
        vals = []
        for j, (n, base, e) in enumerate(plan):
            last = j == len(plan) - 1
            if base[0] == "S":
                w = int(base[1:])
                tok = data[pos:pos + w]
                if len(tok) != w:
                    raise ValueError("row %d: string field %r truncated" % (len(rows), n))
                pos += w
            else:
                end = pos
                while end < L and data[end] != d and data[end] != 10:
                    end += 1
                tok = data[pos:end]
                pos = end
            sep = data[pos:pos + 1]
            if last:
                if sep != b"\n":
                    raise ValueError("row %d: expected newline after the last field, found %r" % (len(rows), sep))
            else:
                if sep != bytes([d]):
                    raise ValueError("row %d: expected delimiter after field %r element %d, found %r"
                                     % (len(rows), n, e, sep))
            pos += 1
            vals.append(tok)
        rows.append(vals)
    if nrows_expected is not None and len(rows) != nrows_expected:
        raise ValueError("%d lines of data, expected %d" % (len(rows), nrows_expected))
    out = np.zeros(len(rows), dtype=dt_native)
    col = 0
    for n, ts, shp in fields:
        nel = int(np.prod(shp)) if shp else 1
        base = ts[1:]
        flat = np.zeros((len(rows), nel), dtype=dt_native.fields[n][0].base if shp else dt_native.fields[n][0])
        for i, vals in enumerate(rows):
            for e in range(nel):
                tok = vals[col + e]
                if base[0] == "S":
                    flat[i, e] = tok
                elif base in ("f8", "f4"):
                    s = tok.decode("ascii").strip()
                    v = float(s.replace("-nan", "nan"))
                    flat[i, e] = np.float32(v) if base == "f4" else v
                else:
                    flat[i, e] = int(tok.decode("ascii"))
        out[n] = flat.reshape((len(rows),) + tuple(shp))
        col += nel
    return out
