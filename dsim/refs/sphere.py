"""Reference spherical geometry (extended precision where it matters)."""
import numpy as np

LD = np.longdouble
D2R = LD(np.pi) / LD(180)


def unit(ra, dec):
    a, d = np.asarray(ra, dtype=LD) * D2R, np.asarray(dec, dtype=LD) * D2R
    return np.cos(d) * np.cos(a), np.cos(d) * np.sin(a), np.sin(d)


def sep_deg(ra1, dec1, ra2, dec2):
    """great-circle separation in degrees: atan2(|a x b|, a.b) in extended precision."""
    x1, y1, z1 = unit(ra1, dec1)
    x2, y2, z2 = unit(ra2, dec2)
    cx, cy, cz = y1 * z2 - z1 * y2, z1 * x2 - x1 * z2, x1 * y2 - y1 * x2
    cr = np.sqrt(cx * cx + cy * cy + cz * cz)
    dt = x1 * x2 + y1 * y2 + z1 * z2
    return np.asarray(np.arctan2(cr, dt) / D2R, dtype="f8")


def tan_deproject(xi_deg, eta_deg, ra0, dec0):
    """gnomonic deprojection about (ra0, dec0): t + xi*e + eta*n, normalised.  Returns
    (lon in [0,360), lat) in degrees (float64), computed in extended precision."""
    xi = np.asarray(xi_deg, dtype=LD) * D2R
    eta = np.asarray(eta_deg, dtype=LD) * D2R
    a0, d0 = LD(ra0) * D2R, LD(dec0) * D2R
    t = (np.cos(d0) * np.cos(a0), np.cos(d0) * np.sin(a0), np.sin(d0))
    e = (-np.sin(a0), np.cos(a0), LD(0))
    n = (-np.sin(d0) * np.cos(a0), -np.sin(d0) * np.sin(a0), np.cos(d0))
    px = t[0] + xi * e[0] + eta * n[0]
    py = t[1] + xi * e[1] + eta * n[1]
    pz = t[2] + xi * e[2] + eta * n[2]
    lon = np.arctan2(py, px) / D2R
    lat = np.arctan2(pz, np.sqrt(px * px + py * py)) / D2R
    lon = np.where(lon < 0, lon + 360, lon)
    lon = np.where(lon >= 360, lon - 360, lon)
    return np.asarray(lon, dtype="f8"), np.asarray(lat, dtype="f8")
